"""C01 — failing-input search / supporting validation on REAL meshes, elements and bases.

For a generated case (mesh, trial element, test element, basis kind, integrand from a grammar, coefficient
vectors u, v, parameters) the direct statement of the property is evaluated on the implementation:

    v^T A u          ==  Functional( f(u_h, v_h, w) )          A = BilinearForm(f).assemble(ubasis, vbasis)
    b^T v            ==  Functional( g(v_h, w) )               b = LinearForm(g).assemble(vbasis)
    A u              ==  LinearForm( f(u_h, . , w) )           (mutual consistency of the three form types)

where u_h, v_h come from the independent code path ``Basis.interpolate``.  Tolerance 1e-10 relative to the
sum of the absolute values of all terms (assembled with |f|), so that cancellation cannot cause a false
alarm.  Every case is a JSON-able descriptor that ``replay`` re-runs.
"""
import logging
import warnings

import numpy as np

TOL = 1e-10

# ---------------------------------------------------------------------------------------------- meshes


def _renumber(m, rng, rotate=False):
    """random vertex renumbering, random cell order (and, for quads, a cyclic shift inside cells)"""
    nv = m.p.shape[1]
    perm = rng.permutation(nv)          # new index of old vertex k is perm[k]
    p = np.empty_like(m.p)
    p[:, perm] = m.p
    t = perm[m.t][:, rng.permutation(m.t.shape[1])]
    if rotate:
        for c in range(t.shape[1]):
            t[:, c] = np.roll(t[:, c], int(rng.integers(0, t.shape[0])))
    return type(m)(p, t.astype(np.int32))


def _jiggle(m, rng, amount):
    p = m.p.copy()
    interior = np.setdiff1d(np.arange(p.shape[1]), m.boundary_nodes())
    p[:, interior] += amount * (rng.random((p.shape[0], len(interior))) - 0.5)
    return type(m)(p, m.t)


def _curve(cls, base, rng, amount):
    """second-order mesh on ``base`` with the non-vertex nodes displaced (curved cells)"""
    from dataclasses import replace
    M = cls.from_mesh(base)
    d = M.doflocs.copy()
    extra = np.arange(base.p.shape[1], d.shape[1])
    d[:, extra] += amount * (rng.random((d.shape[0], len(extra))) - 0.5)
    return replace(M, doflocs=d)


def make_mesh(name, seed):
    import skfem
    from scipy.spatial import Delaunay
    rng = np.random.default_rng(seed)
    lin = np.linspace
    if name == 'tri-delaunay':
        n = int(rng.integers(3, 5))
        g = np.array([[i, j] for i in range(n) for j in range(n)], dtype=float) / (n - 1)
        inner = (g[:, 0] > 0) & (g[:, 0] < 1) & (g[:, 1] > 0) & (g[:, 1] < 1)
        g[inner] += 0.5 / (n - 1) * (rng.random((inner.sum(), 2)) - 0.5)
        g[:, 0] *= 1.0 + rng.random()
        return _renumber(skfem.MeshTri(g.T.copy(), Delaunay(g).simplices.T.astype(np.int32)), rng)
    if name == 'tri-struct':
        return _renumber(skfem.MeshTri.init_tensor(lin(0, 1, 3), lin(0, 2, int(rng.integers(2, 4)))), rng)
    if name == 'tri2-curved':
        return _curve(skfem.MeshTri2, make_mesh('tri-struct', seed + 1), rng, 0.08)
    if name == 'quad-jiggled':
        m = skfem.MeshQuad.init_tensor(lin(0, 1, 3), lin(0, 1.5, int(rng.integers(2, 4))))
        return _renumber(_jiggle(m, rng, 0.2), rng, rotate=True)
    if name == 'quad2-curved':
        return _curve(skfem.MeshQuad2, make_mesh('quad-jiggled', seed + 1), rng, 0.06)
    if name == 'tet-delaunay':
        g = np.array([[i, j, k] for i in range(3) for j in range(2) for k in range(2)], dtype=float)
        g[:, 0] /= 2
        g += 0.15 * (rng.random(g.shape) - 0.5)
        return _renumber(skfem.MeshTet(g.T.copy(), Delaunay(g).simplices.T.astype(np.int32)), rng)
    if name == 'tet-struct':
        return _renumber(skfem.MeshTet.init_tensor(lin(0, 1, 2), lin(0, 1, 2), lin(0, 2, int(rng.integers(2, 4)))), rng)
    if name == 'tet2-curved':
        return _curve(skfem.MeshTet2, make_mesh('tet-struct', seed + 1), rng, 0.05)
    if name == 'hex-jiggled':
        m = skfem.MeshHex.init_tensor(lin(0, 1, 3), lin(0, 1, 2), lin(0, 1, int(rng.integers(2, 4))))
        p = m.p + 0.08 * (rng.random(m.p.shape) - 0.5)
        return type(m)(p, m.t)
    if name == 'line-random':
        n = int(rng.integers(3, 7))
        x = np.cumsum(0.2 + rng.random(n))
        perm = rng.permutation(n)
        p = np.empty(n)
        p[perm] = x
        t = np.vstack((perm[:-1], perm[1:]))[:, rng.permutation(n - 1)]
        return skfem.MeshLine(p[None, :], t.astype(np.int32))
    if name == 'wedge':
        return skfem.MeshTri.init_tensor(lin(0, 1, 2), lin(0, 1, 3)) * skfem.MeshLine(lin(0, 1, int(rng.integers(2, 4))))
    raise KeyError(name)


FAMILY = {'tri-delaunay': 'tri', 'tri-struct': 'tri', 'tri2-curved': 'tri', 'quad-jiggled': 'quad', 'quad2-curved': 'quad',
          'tet-delaunay': 'tet', 'tet-struct': 'tet', 'tet2-curved': 'tet', 'hex-jiggled': 'hex', 'line-random': 'line',
          'wedge': 'wedge'}

# element specs: 'Name', 'Name(3)', 'V:Name' = ElementVector, 'V<n>:Name' = ElementVector(Name, dim=n), 'DG:Name' = ElementDG, 'C:spec+spec' = ElementComposite
ELEMS = {
    'tri': ['ElementTriP1', 'ElementTriP2', 'ElementTriP0', 'ElementTriMini', 'ElementTriCR', 'ElementTriCCR', 'ElementTriP3',
            'DG:ElementTriP1', 'DG:ElementTriP2', 'ElementTriP1DG', 'V:ElementTriP1', 'V:ElementTriP2', 'V:ElementTriMini',
            'C:V:ElementTriP2+ElementTriP1', 'C:ElementTriP1+ElementTriP0+ElementTriP2', 'C:ElementTriRT0+ElementTriP0',
            'ElementTriRT0', 'ElementTriRT1', 'ElementTriBDM1', 'ElementTriN1', 'ElementTriN2', 'ElementTriMorley',
            'ElementTriArgyris', 'ElementTriHermite', 'ElementTriHHJ0', 'ElementTriSkeletonP1'],
    'quad': ['ElementQuad1', 'ElementQuad2', 'ElementQuad0', 'ElementQuadS2', 'ElementQuadP(3)', 'DG:ElementQuad1', 'V:ElementQuad1',
             'V:ElementQuad2', 'C:V:ElementQuad2+ElementQuad1', 'ElementQuadRT0', 'ElementQuadN1', 'ElementQuadBFS'],
    'tet': ['ElementTetP1', 'ElementTetP2', 'ElementTetP0', 'ElementTetMini', 'ElementTetCR', 'DG:ElementTetP1', 'V:ElementTetP1',
            'C:V:ElementTetP2+ElementTetP1', 'C:ElementTetRT0+ElementTetP0', 'ElementTetRT0', 'ElementTetN0', 'ElementTetN1',
            'ElementTetCCR'],
    'hex': ['ElementHex1', 'ElementHex0', 'ElementHexS2', 'DG:ElementHex1', 'V:ElementHex1', 'ElementHexRT1', 'ElementHex2'],
    'line': ['ElementLineP1', 'ElementLineP2', 'ElementLineP0', 'ElementLinePp(3)', 'ElementLineHermite', 'ElementLineMini',
             'DG:ElementLineP1', 'C:ElementLineP2+ElementLineP1'],
    'wedge': ['ElementWedge1', 'V:ElementWedge1'],
}


def make_elem(spec):
    import skfem.element as E
    if spec.startswith('V:'):
        return E.ElementVector(make_elem(spec[2:]))
    if spec[0] == 'V' and spec[1].isdigit() and spec[2] == ':':       # V3:Name = ElementVector(Name, dim=3)
        return E.ElementVector(make_elem(spec[3:]), int(spec[1]))
    if spec.startswith('DG:'):
        return E.ElementDG(make_elem(spec[3:]))
    if spec.startswith('C:'):
        return E.ElementComposite(*[make_elem(s) for s in spec[2:].split('+')])
    if spec.endswith(')'):
        name, arg = spec[:-1].split('(')
        return getattr(E, name)(int(arg))
    return getattr(E, spec)()


# ---------------------------------------------------------------------------------------------- bases

def make_bases(desc, m):
    from skfem.assembly import CellBasis, FacetBasis, InteriorFacetBasis
    eu, ev = make_elem(desc['eu']), make_elem(desc['ev'])
    kind, io = desc['kind'], desc['intorder']
    rng = np.random.default_rng(desc['seed'] + 17)
    if kind == 'cell':
        return CellBasis(m, eu, intorder=io), CellBasis(m, ev, intorder=io)
    if kind in ('cells', 'cells2'):
        k = int(rng.integers(1, m.nelements + 1))
        s1 = rng.permutation(m.nelements)[:k] if desc.get('unsorted') else np.sort(rng.permutation(m.nelements)[:k])
        s2 = rng.permutation(m.nelements)[:k] if kind == 'cells2' else s1
        return CellBasis(m, eu, intorder=io, elements=s1), CellBasis(m, ev, intorder=io, elements=s2)
    if kind == 'facet':
        return FacetBasis(m, eu, intorder=io), FacetBasis(m, ev, intorder=io)
    if kind == 'facets':
        bf = m.boundary_facets()
        k = int(rng.integers(1, len(bf) + 1))
        s = rng.permutation(bf)[:k]
        return FacetBasis(m, eu, intorder=io, facets=s), FacetBasis(m, ev, intorder=io, facets=s)
    if kind == 'ifacet':
        inf = np.nonzero(m.f2t[1] != -1)[0].astype(np.int32)
        s = None
        if desc.get('subset'):
            s = rng.permutation(inf)[:int(rng.integers(1, len(inf) + 1))]
        su, sv = desc['sides']
        return (InteriorFacetBasis(m, eu, intorder=io, side=su, facets=s),
                InteriorFacetBasis(m, ev, intorder=io, side=sv, facets=s))
    if kind == 'oriented':
        ob = oriented_interface(m, desc['seed'])
        su, sv = desc['sides']
        return (InteriorFacetBasis(m, eu, intorder=io, side=su, facets=ob),
                InteriorFacetBasis(m, ev, intorder=io, side=sv, facets=ob))
    raise KeyError(kind)


def oriented_interface(m, seed):
    """an OrientedBoundary of interior facets: the interface around a random set of cells (mesh-boundary facets
    dropped), with the orientation flags of Mesh.facets_around (and randomly flipped as a whole)"""
    from skfem.generic_utils import OrientedBoundary
    rng = np.random.default_rng(seed + 23)
    for _ in range(20):
        k = int(rng.integers(1, max(2, m.nelements)))
        cells = np.sort(rng.permutation(m.nelements)[:k])
        ob = m.facets_around(cells, flip=bool(rng.integers(0, 2)))
        keep = m.f2t[1, np.asarray(ob)] != -1
        if keep.any():
            return OrientedBoundary(np.asarray(ob)[keep], ob.ori[keep])
    raise RuntimeError('no interior interface found')


# ---------------------------------------------------------------------------------------------- integrands

OPS = ('val', 'grad', 'div', 'curl', 'hess')


def _op(f, name):
    return np.array(f) if name == 'val' else getattr(f, name)


def available_ops(f):
    return [o for o in OPS if o == 'val' or getattr(f, o) is not None]


def _coef(name, w, cplx):
    x = w['x']
    if name == 'one':
        c = 1.0
    elif name == 'x0':
        c = 1.0 + x[0]
    elif name == 'poly':
        c = 0.5 + x[0] * x[-1] - 0.25 * x[0] ** 2
    elif name == 'h':
        c = w['h']
    elif name == 'n0':
        c = 0.5 + w['n'][0]
    elif name == 'n.x':
        c = 0.3 + sum(w['n'][k] * x[k] for k in range(x.shape[0]))
    elif name == 'field':
        p = w['p']
        p = p[0] if isinstance(p, tuple) else p
        p = np.array(p)
        c = 0.7 + p.reshape((-1,) + p.shape[-2:]).sum(0)
    elif name == 'scalar':
        c = w['s']
    elif name == 'array':
        c = np.array(w['a'])
    else:
        raise KeyError(name)
    return c * (1.0 + 0.5j) if cplx else c


def _tensor(seed, shape):
    r = np.random.default_rng(seed)
    C = r.integers(-2, 3, size=shape).astype(float)
    if not C.any():
        C.flat[0] = 1.0
    return C


def bilinear_integrand(terms, nu, cplx, absolute=False):
    """f(*u_fields, *v_fields, w) = sum_k coef_k(w) * sum_ab C_k[a,b] op_k(u)[a] op'_k(v)[b]"""
    def form(*args):
        w = args[-1]
        us, vs = args[:nu], args[nu:-1]
        out = 0.
        for t in terms:
            a = _op(us[t['fu'] % len(us)], t['ou'])
            b = _op(vs[t['fv'] % len(vs)], t['ov'])
            A = a.reshape((-1,) + a.shape[-2:])
            B = b.reshape((-1,) + b.shape[-2:])
            C = _tensor(t['cseed'], (A.shape[0], B.shape[0]))
            c = _coef(t['coef'], w, cplx)
            if absolute:
                out = out + np.abs(c) * np.einsum('ab,aeq,beq->eq', np.abs(C), np.abs(A), np.abs(B))
            else:
                out = out + c * np.einsum('ab,aeq,beq->eq', C, A, B)
        return out
    return form


def linear_integrand(terms, cplx, absolute=False):
    def form(*args):
        w = args[-1]
        vs = args[:-1]
        out = 0.
        for t in terms:
            b = _op(vs[t['fv'] % len(vs)], t['ov'])
            B = b.reshape((-1,) + b.shape[-2:])
            C = _tensor(t['cseed'], (B.shape[0],))
            c = _coef(t['coef'], w, cplx)
            if absolute:
                out = out + np.abs(c) * np.einsum('b,beq->eq', np.abs(C), np.abs(B))
            else:
                out = out + c * np.einsum('b,beq->eq', C, B)
        return out
    return form


def _astuple(f):
    return f if isinstance(f, tuple) else (f,)


# ---------------------------------------------------------------------------------------------- one case

def gen_case(rng, quick):
    names = list(FAMILY)
    weights = {'tri-delaunay': 5, 'tri-struct': 3, 'tri2-curved': 2, 'quad-jiggled': 3, 'quad2-curved': 1, 'tet-delaunay': 2,
               'tet-struct': 2, 'tet2-curved': 1, 'hex-jiggled': 1, 'line-random': 2, 'wedge': 1}
    mesh = rng.choices(names, [weights[n] for n in names])[0]
    fam = FAMILY[mesh]
    el = ELEMS[fam]
    eu = rng.choice(el)
    ev = eu if rng.random() < 0.3 else rng.choice(el)
    kinds = ['cell'] * 3 + ['cells', 'cells', 'cells2', 'facet', 'facets', 'ifacet', 'ifacet', 'oriented', 'oriented']
    kind = 'cell' if fam == 'wedge' else rng.choice(kinds)
    if fam == 'wedge' and rng.random() < 0.4:
        kind = 'cells'
    desc = {'mesh': mesh, 'mseed': rng.randrange(10 ** 6), 'eu': eu, 'ev': ev, 'kind': kind, 'intorder': rng.randint(2, 4),
            'seed': rng.randrange(10 ** 6), 'dtype': 'c' if rng.random() < 0.2 else 'f',
            'nthreads': rng.choice([0, 0, 0, 2, 3]), 'unsorted': rng.random() < 0.3}
    if kind == 'ifacet':
        desc['sides'] = rng.choice([(0, 1), (1, 0), (0, 0), (1, 1)])
        desc['subset'] = rng.random() < 0.5
    if kind == 'oriented':
        desc['sides'] = rng.choice([(0, 1), (1, 0), (1, 1), (0, 0), (1, 0)])
        if FAMILY[mesh] == 'line':
            desc['kind'] = 'ifacet'
            desc['subset'] = False
    desc['nterms'] = rng.randint(1, 3)
    desc['tseed'] = rng.randrange(10 ** 6)
    return desc


def _terms(desc, ub, vb, facet):
    import random
    r = random.Random(desc['tseed'])
    uops = [available_ops(f) for f in ub.basis[0]]
    vops = [available_ops(f) for f in vb.basis[0]]
    coefs = ['one', 'x0', 'poly', 'h', 'field', 'scalar', 'array'] + (['n0', 'n.x'] if facet else [])
    terms = []
    for _ in range(desc['nterms']):
        fu, fv = r.randrange(len(uops)), r.randrange(len(vops))
        terms.append({'fu': fu, 'ou': r.choice(uops[fu]), 'fv': fv, 'ov': r.choice(vops[fv]), 'coef': r.choice(coefs),
                      'cseed': r.randrange(10 ** 6)})
    return terms


def eval_case(desc):
    """returns (list of (check name, error, scale), info)"""
    from skfem.assembly import BilinearForm, LinearForm, Functional
    m = make_mesh(desc['mesh'], desc['mseed'])
    ub, vb = make_bases(desc, m)
    facet = desc['kind'] in ('facet', 'facets', 'ifacet')
    terms = _terms(desc, ub, vb, facet)
    if desc['kind'] == 'oriented':          # the reference below is assembled facet group by facet group: no per-facet arrays
        for t in terms:
            if t['coef'] == 'array':
                t['coef'] = 'poly'
    cplx = desc['dtype'] == 'c'
    dtype = np.complex128 if cplx else np.float64
    rng = np.random.default_rng(desc['seed'])

    def vec(n):
        x = rng.integers(-4, 5, size=n) / 4.0
        return (x + 1j * rng.integers(-4, 5, size=n) / 4.0) if cplx else x
    u, v = vec(ub.N), vec(vb.N)
    pvec = rng.integers(-4, 5, size=ub.N) / 4.0
    arr = rng.integers(-4, 5, size=ub.dx.shape) / 4.0
    sc = float(rng.integers(1, 5)) / 2.0
    nu = len(ub.basis[0])
    raw = {'p': pvec, 's': sc, 'a': arr}                       # as a user passes them
    f = bilinear_integrand(terms, nu, cplx)
    fabs = bilinear_integrand(terms, nu, cplx, absolute=True)
    nth = desc['nthreads']
    A = BilinearForm(f, dtype=dtype, nthreads=nth).assemble(ub, vb, **dict(raw))
    Aabs = BilinearForm(fabs).assemble(ub, vb, **dict(raw))
    uh, vh = _astuple(ub.interpolate(u)), _astuple(vb.interpolate(v))

    def F(w):
        return f(*w['uh'], *w['vh'], w)
    # the functional gets the parameters in their normalised kinds: field, scalar, field
    fields_u = {'p': ub.interpolate(pvec), 's': sc, 'a': arr}
    cs0 = _checksum(uh, vh, fields_u['p'])
    J = Functional(F, dtype=dtype).assemble(ub, uh=uh, vh=vh, **dict(fields_u))
    lhs = v @ (A @ u)
    scale = float(np.abs(v) @ (Aabs @ np.abs(u))) + 1e-300
    out = [('vAu=J', abs(lhs - J), scale)]
    if cplx:
        # a Functional created WITHOUT dtype= must not lose the imaginary part of a complex integrand
        Jn = Functional(F).assemble(ub, uh=uh, vh=vh, **dict(fields_u))
        out.append(('functional-complex-without-dtype', abs(complex(Jn) - complex(J)), scale))
    # scaling the integrand by a power of two scales every stored entry exactly (no absolute thresholds anywhere)
    sc2 = 2.0 ** -int(rng.integers(40, 70))
    As = BilinearForm(lambda *a: sc2 * f(*a), dtype=dtype, nthreads=nth).assemble(ub, vb, **dict(raw))
    dA = As.toarray() - sc2 * A.toarray()
    out.append(('scale-invariance', float(np.abs(dA).max(initial=0.0)) / sc2, 1e-300 + 1e-6 * float(np.abs(A.toarray()).max(initial=0.0))))
    # pre-interpolated fields are inputs: a functional that returns its input unchanged must not modify it, and using the
    # field again gives the same value
    f0 = uh[0]
    if np.array(f0).ndim == 2:
        before = np.array(f0).copy()
        J1 = Functional(lambda w: w['g'], dtype=dtype).assemble(ub, g=f0)
        J2 = Functional(lambda w: w['g'], dtype=dtype).assemble(ub, g=f0)
        same = np.array_equal(np.array(f0), before)
        out.append(('operand-reuse', (0.0 if same else 1.0) + abs(complex(J1) - complex(J2)), 0.0 if not same else abs(complex(J1)) + 1e-300))
    info = {'N': (int(ub.N), int(vb.N)), 'Nbfun': (int(ub.Nbfun), int(vb.Nbfun)), 'nelems': int(ub.nelems),
            'terms': terms, 'shape': list(A.shape)}
    if A.shape != (vb.N, ub.N):
        out.append(('shape', 1.0, 0.0))
    if desc['kind'] == 'oriented':
        # side s of an oriented facet with flag ori is the cell f2t[ori] for s = 0 and f2t[1 - ori] for s = 1: assemble the
        # same form on PLAIN facet arrays, facets with ori = 0 with the sides as given, facets with ori = 1 with the sides swapped
        from skfem.assembly import InteriorFacetBasis
        ob = ub.find
        su, sv = desc['sides']
        eu_, ev_ = make_elem(desc['eu']), make_elem(desc['ev'])
        ref = 0.
        for g in (0, 1):
            F = np.asarray(ob)[ob.ori == g].astype(np.int32)
            if len(F) == 0:
                continue
            ug = InteriorFacetBasis(m, eu_, intorder=desc['intorder'], side=su if g == 0 else 1 - su, facets=F)
            vg = InteriorFacetBasis(m, ev_, intorder=desc['intorder'], side=sv if g == 0 else 1 - sv, facets=F)
            ref = ref + BilinearForm(f, dtype=dtype).assemble(ug, vg, **{k: raw[k] for k in ('p', 's')}, a=np.zeros(ug.dx.shape))
        Ad = A.toarray() if hasattr(A, 'toarray') else A
        Rd = ref.toarray()
        out.append(('oriented-side', float(np.abs(Ad - Rd).max(initial=0.0)), float(np.abs(Aabs.toarray()).max(initial=0.0)) + 1e-300))
        info['oriented'] = {'facets': int(len(ob)), 'ori1': int((ob.ori == 1).sum())}
    # linear form on the test basis (parameters given as fields of the trial basis stay valid: same quadrature points)
    lterms = [dict(t) for t in terms]
    g = linear_integrand(lterms, cplx)
    gabs = linear_integrand(lterms, cplx, absolute=True)
    pv = rng.integers(-4, 5, size=vb.N) / 4.0
    rawv = {'p': pv, 's': sc, 'a': arr}
    b = LinearForm(g, dtype=dtype).assemble(vb, **dict(rawv))
    babs = LinearForm(gabs).assemble(vb, **dict(rawv))

    def G(w):
        return g(*w['vh'], w)
    Jl = Functional(G, dtype=dtype).assemble(vb, vh=vh, **{'p': vb.interpolate(pv), 's': sc, 'a': arr})
    out.append(('bv=J', abs(b @ v - Jl), float(babs @ np.abs(v)) + 1e-300))
    # A u = b_u  (v |-> f(u_h, v)); only when both bases see the same default parameters (x, h, n) and dx
    same_geom = desc['kind'] != 'cells2'
    if same_geom:
        def Lu(*args):
            w = args[-1]
            return f(*w['uh'], *args[:-1], w)
        bu = LinearForm(Lu, dtype=dtype).assemble(vb, uh=uh, **dict(fields_u))
        sv = np.asarray(Aabs @ np.abs(u)).ravel()
        sv = sv + 1e-3 * (float(sv.max(initial=0.0)) + 1e-300)       # per-row scale, floored relative to the largest row
        out.append(('Au=b_u', float(np.max(np.abs(A @ u - bu) / sv, initial=0.0)), 1.0))
    if _checksum(uh, vh, fields_u['p']) != cs0:
        out.append(('operands-mutated', 1.0, 0.0))
    return out, info


def _checksum(*fields):
    import hashlib
    h = hashlib.sha1()
    for f in fields:
        for g in (f if isinstance(f, tuple) else (f,)):
            for a in g.astuple:
                if a is not None:
                    h.update(np.ascontiguousarray(a).tobytes())
    return h.hexdigest()



def trilinear_integrand(terms, nu, nv, cplx=False, absolute=False):
    """f(*u_fields, *v_fields, *w_fields, p) = sum_k coef_k(p) * sum_abc C_k[a,b,c] op_k(u)[a] op'_k(v)[b] op''_k(w)[c]"""
    def form(*args):
        p = args[-1]
        us, vs, ws = args[:nu], args[nu:nu + nv], args[nu + nv:-1]
        out = 0.
        for t in terms:
            a, b, c = _op(us[t['fu'] % len(us)], t['ou']), _op(vs[t['fv'] % len(vs)], t['ov']), _op(ws[t['fw'] % len(ws)], t['ow'])
            A, B, Cc = (x.reshape((-1,) + x.shape[-2:]) for x in (a, b, c))
            C = _tensor(t['cseed'], (A.shape[0], B.shape[0], Cc.shape[0]))
            co = _coef(t['coef'], p, cplx)
            if absolute:
                out = out + np.abs(co) * np.einsum('abc,aeq,beq,ceq->eq', np.abs(C), np.abs(A), np.abs(B), np.abs(Cc))
            else:
                out = out + co * np.einsum('abc,aeq,beq,ceq->eq', C, A, B, Cc)
        return out
    return form


def eval_trilinear(desc):
    """sum_abc T_abc w_a v_b u_c == Functional(f(u_h, v_h, w_h)) for three (different) bases"""
    import random
    from skfem.assembly import TrilinearForm, Functional
    m = make_mesh(desc['mesh'], desc['mseed'])
    r = random.Random(desc['tseed'] + 1)
    small = [e for e in ELEMS[FAMILY[desc['mesh']]] if e not in ('ElementTriArgyris', 'ElementQuadBFS', 'ElementHex2', 'ElementTriP3',
                                                                  'ElementQuadP(3)', 'ElementTetCCR', 'ElementHexS2', 'ElementTriHermite')]
    eu, ev, ew = (r.choice(small) for _ in range(3))
    d1 = dict(desc, eu=eu, ev=ev)
    ub, vb = make_bases(d1, m)
    wb, _ = make_bases(dict(desc, eu=ew, ev=ev), m)
    if ub.Nbfun * vb.Nbfun * wb.Nbfun * ub.nelems > 40000:
        return None, None
    facet = desc['kind'] in ('facet', 'facets', 'ifacet')
    ops = [[available_ops(f) for f in b.basis[0]] for b in (ub, vb, wb)]
    coefs = ['one', 'x0', 'poly', 'h', 'scalar'] + (['n0'] if facet else [])
    terms = []
    for _ in range(r.randint(1, 2)):
        fu, fv, fw = (r.randrange(len(o)) for o in ops)
        terms.append({'fu': fu, 'ou': r.choice(ops[0][fu]), 'fv': fv, 'ov': r.choice(ops[1][fv]), 'fw': fw, 'ow': r.choice(ops[2][fw]),
                      'coef': r.choice(coefs), 'cseed': r.randrange(10 ** 6)})
    rng = np.random.default_rng(desc['seed'] + 9)
    u, v, w = (rng.integers(-4, 5, size=b.N) / 4.0 for b in (ub, vb, wb))
    nu, nv = len(ub.basis[0]), len(vb.basis[0])
    f = trilinear_integrand(terms, nu, nv)
    fabs = trilinear_integrand(terms, nu, nv, absolute=True)
    par = {'s': 1.5}
    T = TrilinearForm(f).assemble(ub, vb, wb, **dict(par))
    Tabs = TrilinearForm(fabs).assemble(ub, vb, wb, **dict(par))
    out = []
    if tuple(T.shape) != (wb.N, vb.N, ub.N) or tuple(T.local_shape) != (wb.Nbfun, vb.Nbfun, ub.Nbfun):
        out.append(('trilinear-shape', 1.0, 0.0))
    # contraction straight from the triplets (the dense N-tensor path is corresponded on stubs)
    lhs = float(np.sum(T.data * w[T.indices[0]] * v[T.indices[1]] * u[T.indices[2]]))
    scale = float(np.sum(np.abs(Tabs.data) * np.abs(w[Tabs.indices[0]]) * np.abs(v[Tabs.indices[1]]) * np.abs(u[Tabs.indices[2]]))) + 1e-300
    uh, vh, wh = _astuple(ub.interpolate(u)), _astuple(vb.interpolate(v)), _astuple(wb.interpolate(w))
    J = Functional(lambda p: f(*p['uh'], *p['vh'], *p['wh'], p)).assemble(ub, uh=uh, vh=vh, wh=wh, **dict(par))
    out.append(('Twvu=J', abs(lhs - J), scale))
    if ub.N * vb.N * wb.N <= 30000 and len(T.data) <= 6000:
        Td = T.toarray()
        out.append(('toarray3', abs(float(np.einsum('abc,a,b,c', Td, w, v, u)) - lhs), scale))
        # complex-valued trilinear form: triplets, the dense 3-tensor and the functional keep the imaginary part
        Tc = TrilinearForm(lambda *a: (1.0 + 2.0j) * f(*a), dtype=np.complex128).assemble(ub, vb, wb, **dict(par))
        Tcd = Tc.toarray()
        out.append(('toarray3-complex', float(np.abs(Tcd - (1.0 + 2.0j) * Td).max(initial=0.0)), float(np.abs(Td).max(initial=0.0)) + 1e-300))
        Jc = Functional(lambda p: (1.0 + 2.0j) * f(*p['uh'], *p['vh'], *p['wh'], p)).assemble(ub, uh=uh, vh=vh, wh=wh, **dict(par))
        out.append(('Twvu=J-complex', abs(complex(np.einsum('abc,a,b,c', Tcd, w, v, u)) - complex(Jc)), scale))
    return out, {'elements': (eu, ev, ew), 'Nbfun': (int(ub.Nbfun), int(vb.Nbfun), int(wb.Nbfun)), 'nelems': int(ub.nelems), 'terms': terms}


def nontrivial(desc, info):
    return info['nelems'] >= 2 and (desc['eu'] != desc['ev'] or info['Nbfun'][0] >= 2)


def run(ctx):
    logging.getLogger('skfem').setLevel(logging.ERROR)
    warnings.simplefilter('ignore')
    rng = ctx.rng
    n = ctx.n(280, 5000)
    worst = 0.0
    stats = {}
    ntri = 0
    for c in range(n):
        desc = gen_case(rng, ctx.quick())
        key = f"real:{FAMILY[desc['mesh']]}:{desc['kind']}"
        try:
            res, info = eval_case(desc)
        except Exception as e:  # an exception of the implementation on a valid input is a failing input
            import traceback
            ctx.fail(key + ':exception', f'{type(e).__name__}: {e}', {'oracle_case': desc, 'traceback': traceback.format_exc()[-1500:]})
            continue
        ctx.count(desc, nontrivial=nontrivial(desc, info))
        for k in ('mesh', 'kind', 'dtype', 'nthreads'):
            ctx.hist(k, desc[k])
        ctx.hist('element', desc['eu'])
        ctx.hist('element', desc['ev'])
        for t in info['terms']:
            ctx.hist('op', t['ou'] + '*' + t['ov'])
            ctx.hist('coef', t['coef'])
        stats['trial!=test'] = stats.get('trial!=test', 0) + (desc['eu'] != desc['ev'])
        if c < 3:
            ctx.sample({'kind': 'oracle case', 'desc': desc, 'info': info, 'checks': [(a, float(b), float(s)) for a, b, s in res]})
        if c % 6 == 0 and desc['kind'] != 'cells2':
            try:
                r3, i3 = eval_trilinear(desc)
            except Exception as e:
                import traceback
                ctx.fail(key + ':trilinear:exception', f'{type(e).__name__}: {e}', {'oracle_case': dict(desc, trilinear=True),
                                                                                    'traceback': traceback.format_exc()[-1500:]})
                r3 = None
            if r3 is not None:
                ntri += 1
                ctx.count(('trilinear', desc), nontrivial=len(set(i3['elements'])) >= 2)
                ctx.hist('trilinear elements distinct', len(set(i3['elements'])))
                res = res + [(n_, e_, s_) for n_, e_, s_ in r3]
                info = dict(info, trilinear=i3)
        for name, err, scale in res:
            rel = err / scale if scale > 0 else float('inf')
            worst = max(worst, rel if np.isfinite(rel) else 0.0)
            if not (err <= TOL * scale):
                ctx.fail(key + ':' + name, f'{name}: discrepancy {err:.3e} (scale {scale:.3e}, tolerance {TOL:g}*scale)',
                         {'oracle_case': dict(desc, trilinear=name in ('Twvu=J', 'toarray3', 'trilinear-shape', 'toarray3-complex', 'Twvu=J-complex')), 'info': info,
                          'check': name, 'error': float(err), 'scale': float(scale)})
    stats['trilinear cases'] = ntri
    ctx.extra['oracle'] = {'cases': n, 'max_relative_discrepancy': worst, 'tolerance': TOL,
                           'margin_factor': (TOL / worst) if worst > 0 else None, **stats}
    ctx.log(f'oracle: {n} real-basis cases, max relative discrepancy {worst:.2e} (tolerance {TOL:g})')


def replay(ctx, inp):
    logging.getLogger('skfem').setLevel(logging.ERROR)
    warnings.simplefilter('ignore')
    desc = inp['oracle_case']
    res, info = eval_case(desc)
    if desc.get('trilinear'):
        r3, _ = eval_trilinear(desc)
        res = res + (r3 or [])
    for name, err, scale in res:
        ctx.log(f'replay {name}: error {err:.3e} scale {scale:.3e}')
        if not (err <= TOL * scale):
            ctx.fail('replay:' + name, f'{name}: discrepancy {err:.3e} (scale {scale:.3e})', {'oracle_case': desc, 'info': info})
