def run(ctx):
    pass
def replay(ctx, inp):
    pass
