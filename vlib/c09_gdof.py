"""T1 tie of the defining functionals of the ElementGlobal family: the REAL ``gdof(F, w, i)`` of every class is run on
symbolic objects and returns, per DOF, WHICH functional it is (value / partial derivative multi-index / normal
derivative) and WHERE (an affine combination of the cell's vertices).

  F[diff]    -> a recorder: calling it on coordinates yields the term (diff, location)
  w['v'][k]  -> vertex k as object array of symbolic coordinates (component c of the combination e_k)
  w['e'][k]  -> .5 * (v_k + v_((k+1) mod n))   (as ElementGlobal._eval_dofs builds it; 2-D only)
  w['n'][k,c]-> formal component c of the normal of edge k

Expected (from the class attributes, independently of gdof): the DOF layout nodal | facet | interior with the class'
counts gives every local index its dofname and its entity; the canonical location of the entity is the vertex, the mean of
the facet's vertices (refdom.facets), the mean of all vertices.  Coq checks kind == dofname-kind, location == canonical
location, and canonical location applied to refdom.p == doflocs row.
"""
from fractions import Fraction as Fr

import numpy as np

from .core import TranslateError
from .c09_sym import rat


class Coord:
    """component c of an affine combination of the vertices"""

    def __init__(self, c, comb):
        self.c, self.comb = c, {k: v for k, v in comb.items() if v != 0}

    def _lin(self, o, so, ss):
        if not isinstance(o, Coord) or o.c != self.c:
            raise TranslateError('gdof: coordinates of different components combined')
        keys = set(self.comb) | set(o.comb)
        return Coord(self.c, {k: ss * self.comb.get(k, 0) + so * o.comb.get(k, 0) for k in keys})

    def __add__(self, o):
        return self._lin(o, 1, 1)
    __radd__ = __add__

    def __sub__(self, o):
        return self._lin(o, -1, 1)

    def __mul__(self, s):
        s = rat(s)
        return Coord(self.c, {k: s * v for k, v in self.comb.items()})
    __rmul__ = __mul__

    def __truediv__(self, s):
        return self * (1 / rat(s))


class NSym:
    def __init__(self, k, c):
        self.k, self.c = k, c


class Lin:
    """linear combination of point functionals: {(diff, location): coefficient}, coefficient 1 or a normal component"""

    def __init__(self, terms):
        self.terms = terms

    def __mul__(self, o):
        if isinstance(o, NSym) and len(self.terms) == 1 and list(self.terms.values()) == [1]:
            return Lin({k: o for k in self.terms})
        raise TranslateError('gdof: unsupported product')
    __rmul__ = __mul__

    def __add__(self, o):
        if not isinstance(o, Lin) or set(self.terms) & set(o.terms):
            raise TranslateError('gdof: unsupported sum')
        t = dict(self.terms)
        t.update(o.terms)
        return Lin(t)


def _recorder(diff, dim):
    def f(*coords):
        if len(coords) != dim or any(not isinstance(x, Coord) or x.c != c for c, x in enumerate(coords)):
            raise TranslateError(f'gdof: F[{diff}] called on {len(coords)} non-coordinate arguments')
        comb = coords[0].comb
        if any(x.comb != comb for x in coords):
            raise TranslateError('gdof: coordinates of different points mixed')
        return Lin({(tuple(diff), tuple(sorted(comb.items()))): 1})
    return f


LETTERS = 'xyz'


def kind_of_diff(diff):
    return 'u' if not diff else 'u_' + ''.join(LETTERS[k] for k in sorted(diff))


def run_gdof(elem):
    """[(kind string, {vertex: weight})] for every local DOF, from the real gdof"""
    rd = elem.refdom
    dim, nn = rd.dim(), rd.nnodes
    import itertools
    F = {}
    for k in range(elem.derivatives + 1):
        for diff in itertools.product(range(dim), repeat=k):
            F[diff] = _recorder(diff, dim)
    v = [np.array([Coord(c, {k: Fr(1)}) for c in range(dim)], dtype=object) for k in range(nn)]
    w = {'v': v}
    if dim == 2:
        w['e'] = [.5 * (v[k] + v[(k + 1) % nn]) for k in range(nn)]
        n = np.empty((nn, dim), dtype=object)
        for k in range(nn):
            for c in range(dim):
                n[k, c] = NSym(k, c)
        w['n'] = n
    nb = int(sum(elem._bfun_counts()))
    out = []
    for i in range(nb):
        try:
            res = elem.gdof(F, w, i)
        except TranslateError:
            raise
        except Exception as ex:  # noqa
            raise TranslateError(f'{type(elem).__name__}.gdof({i}) on symbolic objects raised {type(ex).__name__}: {ex}')
        if not isinstance(res, Lin):
            raise TranslateError(f'{type(elem).__name__}.gdof({i}) returned {type(res).__name__}')
        terms = res.terms
        if len(terms) == 1 and list(terms.values()) == [1]:
            (diff, comb), = terms.keys()
            out.append((kind_of_diff(diff), dict(comb)))
        elif len(terms) == dim and all(isinstance(c, NSym) for c in terms.values()):
            combs = {comb for _, comb in terms}
            edges = {c.k for c in terms.values()}
            ok = len(combs) == 1 and len(edges) == 1 and all(diff == (c.c,) for (diff, _), c in terms.items())
            if not ok:
                raise TranslateError(f'{type(elem).__name__}.gdof({i}): not a normal derivative at one point')
            out.append((f'u_n@edge{edges.pop()}', dict(combs.pop())))
        else:
            raise TranslateError(f'{type(elem).__name__}.gdof({i}): unrecognised functional')
    return out


def expected(elem):
    """[(kind, {vertex: weight})] from dofnames + DOF layout + refdom tables; and the doflocs rows"""
    rd = elem.refdom
    nn, nf = rd.nnodes, rd.nfacets
    nd, fd, ed, idf = int(elem.nodal_dofs), int(elem.facet_dofs), int(elem.edge_dofs), int(elem.interior_dofs)
    if ed:
        raise TranslateError(f'{type(elem).__name__}: edge DOFs of global elements not supported')
    names = list(elem.dofnames)
    if len(names) != nd + fd + idf:
        raise TranslateError(f'{type(elem).__name__}: {len(names)} dofnames for {nd}+{fd}+{idf} DOF kinds')
    out = []
    for k in range(nn):
        for a in range(nd):
            out.append((names[a], {k: Fr(1)}))
    facets = [list(map(int, f)) for f in (rd.facets or [])]
    for j in range(nf if fd else 0):
        for a in range(fd):
            nm = names[nd + a]
            out.append((nm + f'@edge{j}' if nm == 'u_n' else nm, {v: Fr(1, len(facets[j])) for v in facets[j]}))
    for a in range(idf):
        out.append((names[nd + fd + a], {k: Fr(1, nn) for k in range(nn)}))
    return out


def canonical_points(elem):
    """reference coordinates of the canonical location of every local DOF (exact)"""
    p = [[rat(x) for x in col] for col in np.asarray(elem.refdom.p).T]
    pts = []
    for _, comb in expected(elem):
        pts.append([sum(w * p[k][c] for k, w in comb.items()) for c in range(len(p[0]))])
    return pts
