"""C12/C13 T2: fail-closed symbolic reading of the ``_uniform`` methods and of ``Mesh.refined``.

The refinement methods build the new connectivity from a handful of array expressions
(``np.hstack((np.vstack((t[0], t2f[0] + sz, ...)), ...))``).  This module interprets exactly that
sub-language symbolically and returns

* the child templates as lists of node references (vertex i / edge j / facet j / cell midpoint),
* the index offsets of the new vertices as linear expressions in ``sz``, ``max(t2e)``, ``max(t2f)``,
* the blocks of the new coordinate array,
* the tag index maps.

Anything that is not recognised raises :class:`TranslateError`.
"""
import ast

from . import t2
from .core import TranslateError

# ----------------------------------------------------------------------------- linear expressions


class Lin:
    """non-negative integer linear expression over named symbols ('1' = constant)"""

    def __init__(self, d=None):
        self.d = {k: v for k, v in (d or {}).items() if v != 0}

    def __add__(self, o):
        r = dict(self.d)
        for k, v in o.d.items():
            r[k] = r.get(k, 0) + v
        return Lin(r)

    def scale(self, c):
        return Lin({k: v * c for k, v in self.d.items()})

    def __eq__(self, o):
        return isinstance(o, Lin) and self.d == o.d

    def __hash__(self):
        return hash(tuple(sorted(self.d.items())))

    def const(self):
        if set(self.d) <= {'1'}:
            return self.d.get('1', 0)
        return None

    def coq(self):
        if any(v < 0 for v in self.d.values()):
            raise TranslateError(f'negative coefficient in offset {self.d}')
        parts = []
        for k in sorted(self.d, key=lambda s: (s == '1', s)):
            v = self.d[k]
            if k == '1':
                parts.append(str(v))
            elif v == 1:
                parts.append(k)
            else:
                parts.append(f'{v} * {k}')
        return '(' + ' + '.join(parts) + ')' if parts else '0'

    def __repr__(self):
        return 'Lin' + repr(self.d)


ZERO = Lin()
ONE = Lin({'1': 1})

# ----------------------------------------------------------------------------- symbolic values
# ('P',)                      the coordinate array
# ('TAB', kind, off)          t (kind 'V'), t2e+off ('E'), t2f+off ('F');  rows indexable
# ('ENT', kind)               self.edges / self.facets / self.t used as an index into p
# ('ROW', kind, i, off, cls)  one row (cls: None or the name of a boolean class mask)
# ('MID', off, cls)           arange(nt) + off
# ('S', Lin)                  integer scalar
# ('NT',)                     t.shape[1]  (kept symbolic and separate from Lin offsets)
# ('PBLK', how, kind)         a block of new coordinates: mean / scaled sum over an entity table


class Sym:
    def __init__(self, selfnames=('self',), env=None):
        self.env = dict(env or {})
        self.masks = set()

    # -- expressions
    def ev(self, n):
        s = t2.src(n)
        if isinstance(n, ast.Name):
            if n.id in self.env:
                return self.env[n.id]
            raise TranslateError(f'unknown name {n.id}')
        if s in ('self.doflocs', 'self.p'):
            return ('P',)
        if s == 'self.t':
            return ('TAB', 'V', ZERO)
        if s in ('self.t2f', 'self.t2f.copy()'):
            return ('TAB', 'F', ZERO)
        if s in ('self.t2e', 'self.t2e.copy()'):
            return ('TAB', 'E', ZERO)
        if s == 'self.facets':
            return ('ENT', 'F')
        if s == 'self.edges':
            return ('ENT', 'E')
        if isinstance(n, ast.Constant) and isinstance(n.value, int) and not isinstance(n.value, bool):
            return ('S', Lin({'1': n.value}))
        if isinstance(n, ast.Subscript):
            return self.subscript(n)
        if isinstance(n, ast.BinOp) and isinstance(n.op, ast.Add):
            return self.add(self.ev(n.left), self.ev(n.right), s)
        if isinstance(n, ast.BinOp) and isinstance(n.op, ast.Mult):
            a, b = self.ev(n.left), self.ev(n.right)
            for x, y in ((a, b), (b, a)):
                if x[0] == 'S' and x[1].const() is not None and y == ('NT',):
                    return ('SNT', x[1].const())
                if x[0] == 'S' and x[1].const() is not None and y[0] == 'S':
                    return ('S', y[1].scale(x[1].const()))
            raise TranslateError('product: ' + s)
        if isinstance(n, ast.Call):
            return self.call(n)
        raise TranslateError('unsupported expression: ' + s[:100])

    def add(self, a, b, s):
        if a[0] == 'S' and b[0] == 'S':
            return ('S', a[1] + b[1])
        for x, y in ((a, b), (b, a)):
            if y[0] == 'S':
                if x[0] == 'TAB' and x[1] in ('E', 'F'):
                    return ('TAB', x[1], x[2] + y[1])
                if x[0] == 'ROW' and x[1] in ('E', 'F'):
                    return ('ROW', x[1], x[2], x[3] + y[1], x[4])
                if x[0] == 'MID':
                    return ('MID', x[1] + y[1], x[2])
        raise TranslateError('sum: ' + s)

    def shape1(self, n):
        """``<arr>.shape[1]``"""
        if not (isinstance(n, ast.Subscript) and isinstance(n.value, ast.Attribute) and n.value.attr == 'shape'
                and isinstance(n.slice, ast.Constant)):
            return None
        base = self.ev(n.value.value)
        ix = n.slice.value
        if base == ('P',) and ix == 1:
            return ('S', Lin({'sz': 1}))
        if base[0] == 'TAB' and base[1] == 'V' and ix == 1:
            return ('NT',)
        if base[0] == 'TAB' and base[1] == 'V' and ix == 0:
            return ('NNODES',)
        raise TranslateError('shape: ' + t2.src(n))

    def subscript(self, n):
        sh = self.shape1(n)
        if sh is not None:
            return sh
        base = self.ev(n.value)
        ix = t2.index_tuple(n)
        if base[0] == 'TAB':
            if len(ix) == 1 and isinstance(ix[0], ast.Constant) and isinstance(ix[0].value, int):
                return ('ROW', base[1], ix[0].value, base[2], None)
            if (len(ix) == 2 and isinstance(ix[0], ast.Constant) and isinstance(ix[0].value, int)
                    and isinstance(ix[1], ast.Name) and ix[1].id in self.masks):
                return ('ROW', base[1], ix[0].value, base[2], ix[1].id)
        if base == ('P',) and len(ix) == 2 and t2.src(ix[0]) == ':':
            e = self.ev(ix[1])
            if e[0] == 'ENT':
                return ('PGATHER', e[1])
            if e == ('TAB', 'V', ZERO):
                return ('PGATHER', 'C')
        raise TranslateError('subscript: ' + t2.src(n))

    def call(self, n):
        f = t2.src(n.func)
        kw = {k.arg: t2.src(k.value) for k in n.keywords}
        if f == 'np.max' and len(n.args) == 1 and not kw:
            a = self.ev(n.args[0])
            if a[0] == 'TAB':
                return ('S', Lin({'max' + a[1]: 1}) + a[2])
            raise TranslateError('np.max of ' + t2.src(n.args[0]))
        if f == 'np.arange' and len(n.args) == 1 and kw in ({}, {'dtype': 'np.int32'}):
            a = self.ev(n.args[0])
            if a == ('NT',):
                return ('MID', ZERO, None)
            raise TranslateError('np.arange of ' + t2.src(n.args[0]))
        if f.endswith('.copy') and not n.args and not kw:
            return self.ev(n.func.value)
        if f.endswith('.mean') and kw == {'axis': '1'} and not n.args:
            a = self.ev(n.func.value)
            if a[0] == 'PGATHER':
                return ('PBLK', 'mean', a[1])
        if f == 'np.sum' and kw == {'axis': '1'} and len(n.args) == 1:
            a = self.ev(n.args[0])
            if a[0] == 'PGATHER':
                return ('PSUM', a[1])
        raise TranslateError('call: ' + t2.src(n)[:100])


def float_scaled_sum(sym, n):
    """``.5 * np.sum(p[:, self.edges], axis=1)`` -> ('PBLK', ('scaled', num, den), kind)"""
    if isinstance(n, ast.BinOp) and isinstance(n.op, ast.Mult) and isinstance(n.left, ast.Constant) \
            and isinstance(n.left.value, float):
        from fractions import Fraction
        fr = Fraction(n.left.value)
        if fr.denominator not in (2, 4, 8) or fr.numerator != 1:
            raise TranslateError('coordinate scale ' + repr(n.left.value))
        a = sym.ev(n.right)
        if a[0] == 'PSUM':
            return ('PBLK', ('scaled', fr.numerator, fr.denominator), a[1])
    return None


def pblocks(sym, n):
    """``np.hstack((p, <block>, ...))`` -> list of blocks"""
    if not (isinstance(n, ast.Call) and t2.src(n.func) == 'np.hstack' and len(n.args) == 1
            and isinstance(n.args[0], ast.Tuple)):
        raise TranslateError('coordinates: ' + t2.src(n)[:80])
    out = []
    for k, e in enumerate(n.args[0].elts):
        v = float_scaled_sum(sym, e) or sym.ev(e)
        if k == 0:
            if v != ('P',):
                raise TranslateError('first coordinate block must be p')
            continue
        if v[0] != 'PBLK':
            raise TranslateError('coordinate block: ' + t2.src(e))
        out.append((v[1], v[2]))
    return out


def templates(sym, n):
    """``np.hstack((np.vstack((row, ...)), ...))`` -> list of (cls, [node refs]) ; node ref = (kind, i, off)"""
    if not (isinstance(n, ast.Call) and t2.src(n.func) == 'np.hstack' and len(n.args) == 1
            and isinstance(n.args[0], ast.Tuple)):
        raise TranslateError('connectivity: ' + t2.src(n)[:80])
    out = []
    for blk in n.args[0].elts:
        if not (isinstance(blk, ast.Call) and t2.src(blk.func) == 'np.vstack' and len(blk.args) == 1
                and isinstance(blk.args[0], ast.Tuple)):
            raise TranslateError('connectivity block: ' + t2.src(blk)[:80])
        rows = [sym.ev(e) for e in blk.args[0].elts]
        clss = set()
        refs = []
        for r in rows:
            if r[0] == 'ROW':
                refs.append((r[1], r[2], r[3]))
                clss.add(r[4])
            elif r[0] == 'MID':
                refs.append(('C', 0, r[1]))
                clss.add(r[2])
            else:
                raise TranslateError('connectivity row: ' + repr(r))
        if len(clss) != 1:
            raise TranslateError('mixed class masks in one block: ' + t2.src(blk)[:80])
        out.append((clss.pop(), refs))
    return out


def offsets(tpls):
    """one offset per kind, consistent over all uses"""
    off = {}
    for _, refs in tpls:
        for kind, _, o in refs:
            if kind == 'V':
                if o != ZERO:
                    raise TranslateError('offset on a vertex row')
                continue
            if off.setdefault(kind, o) != o:
                raise TranslateError(f'inconsistent offsets for kind {kind}')
    return off


def nref(kind, i):
    return {'V': f'NV {i}', 'E': f'NE {i}', 'F': f'NF {i}', 'C': 'NC'}[kind]


def coq_templates(tpls):
    return '[' + ';\n   '.join('[' + '; '.join(nref(k, i) for k, i, _ in refs) + ']' for _, refs in tpls) + ']'


def simple_assigns(fn, sym, stop_at=None):
    """interpret leading ``name = expr`` statements of a method body; returns the remaining statements"""
    body = [s for s in fn.body if not (isinstance(s, ast.Expr) and isinstance(s.value, ast.Constant))]
    k = 0
    while k < len(body):
        s = body[k]
        if isinstance(s, ast.Assign) and len(s.targets) == 1 and isinstance(s.targets[0], ast.Name) \
                and (stop_at is None or s.targets[0].id not in stop_at):
            try:
                sym.env[s.targets[0].id] = sym.ev(s.value)
            except TranslateError:
                break
            k += 1
        else:
            break
    return body[k:]


def replace_kwargs(call, first='self'):
    if not (isinstance(call, ast.Call) and t2.src(call.func) == 'replace' and len(call.args) == 1
            and t2.src(call.args[0]) == first):
        raise TranslateError('expected replace(%s, ...): %s' % (first, t2.src(call)[:60]))
    return {k.arg: k.value for k in call.keywords}
