"""C20 — fail-closed translator of the arithmetic special methods of ``skfem.autodiff.JaxDiscreteField`` (the object an
integrand of a NonlinearForm receives for u, v, w.x, ...).  Each method is a one-line closed form in ``self.value`` and
``other`` (a JaxDiscreteField or an array / number); it is executed symbolically (vlib/c20_tr.Interp) for both kinds of
``other`` and emitted as a Gallina term together with a generated lemma stating that it IS the operator it implements
(``__rsub__``: other - value, ``__rtruediv__``: other / value, ...).  The expected definitions below are NOT read from the
source.  Any other special method of the class is a TranslateError (a new operator has no theorem)."""
import ast

from . import t2
from .c20_tr import Interp
from .core import TranslateError

SRC = 'skfem/autodiff/__init__.py'
# method -> (expected definition with s = self.value, o = other(.value)); s, o scalars of the model (pointwise trailing axes)
BINARY = {
    '__add__': '(s + o)', '__radd__': '(o + s)', '__sub__': '(s - o)', '__rsub__': '(o - s)',
    '__mul__': '(s * o)', '__rmul__': '(o * s)', '__truediv__': '(s / o)', '__rtruediv__': '(o / s)',
}
UNARY = {'__neg__': '(- s)', '__pos__': 's'}
REQUIRED = ['__add__', '__radd__', '__neg__', '__sub__', '__rsub__', '__mul__', '__rmul__', '__truediv__', '__rtruediv__', '__pow__', '__rpow__']
NON_ARITHMETIC = {'__init__', '__array__', '__jax_array__', '__getitem__', 'shape', 'astuple'}
# the array protocol hands out the value array (NumPy: as ndarray; JAX: the jax array itself)
PROTOCOL = {'__array__': ('return np.asarray(self.value, dtype=dtype)', ['self', 'dtype', 'copy']), '__jax_array__': ('return self.value', ['self']),
            '__getitem__': ('return self.value[index]', ['self', 'index'])}
FIELD = ('field', {'value': 0})


def generate():
    """-> (Coq text of Gen/C20Gen_ops.v, list of the special methods that exist)"""
    it = Interp(SRC, 'jx')
    cl = t2.only([n for n in it.tree.body if isinstance(n, ast.ClassDef) and n.name == 'JaxDiscreteField'], 'class JaxDiscreteField')
    methods = {n.name: n for n in cl.body if isinstance(n, ast.FunctionDef)}
    unknown = sorted(set(methods) - set(BINARY) - set(UNARY) - NON_ARITHMETIC - {'__pow__', '__rpow__'})
    if unknown:
        raise TranslateError(f'{SRC}: JaxDiscreteField has special method(s) without a theorem: {unknown}')
    missing = [m for m in REQUIRED if m not in methods]
    if missing:
        raise TranslateError(f'{SRC}: JaxDiscreteField lacks {missing}')
    for name, (body, params) in PROTOCOL.items():
        if name not in methods:
            raise TranslateError(f'{SRC}: JaxDiscreteField lacks {name}')
        got = [t2.src(st) for st in methods[name].body if not (isinstance(st, ast.Expr) and isinstance(st.value, ast.Constant))]
        if got != [body] or [a.arg for a in methods[name].args.args] != params:
            raise TranslateError(f'{SRC}: JaxDiscreteField.{name} changed: {got}')
    prio = [st for st in cl.body if isinstance(st, ast.Assign) and t2.src(st.targets[0]) == '__array_priority__']
    if len(prio) != 1 or not isinstance(prio[0].value, ast.Constant) or not prio[0].value.value > 0:
        raise TranslateError(f'{SRC}: JaxDiscreteField.__array_priority__ must be a positive constant (NumPy operands defer to the field)')
    nf = t2.only([n for n in it.tree.body if isinstance(n, ast.ClassDef) and n.name == 'NonlinearForm'], 'class NonlinearForm')
    nfm = {n.name: n for n in nf.body if isinstance(n, ast.FunctionDef)}
    if 'coo_data' not in nfm or 'return self.elemental(basis, x=x, **kwargs)' not in t2.src(nfm['coo_data']):
        raise TranslateError(f'{SRC}: NonlinearForm.coo_data must forward to elemental')
    if sorted(nfm) != ['_assemble', 'assemble', 'coo_data', 'elemental']:
        raise TranslateError(f'{SRC}: NonlinearForm methods {sorted(nfm)}')
    it.funcs = methods
    defs, lemmas, present = [], [], []
    for name in sorted(methods):
        short = name.strip('_')
        if name in BINARY:
            present.append(name)
            for kind, spec in (('f', FIELD), ('a', ('arr', 0))):
                dn = f'jdf_{short}_{kind}'
                txt, params, rr = it.translate(dn, name, 2, [FIELD, spec])
                if txt is None or rr != 0 or len(params) != 2:
                    raise TranslateError(f'JaxDiscreteField.{name}: {params}')
                defs.append(f'(* {name}, other is {"a JaxDiscreteField" if kind == "f" else "an array / number"} *)\n{txt}')
                lemmas.append(f'Lemma {dn}_def : forall s o : R, {dn} s o = {BINARY[name]}.\nProof. intros. first [reflexivity | unfold {dn}; ring]. Qed.')
        elif name in UNARY:
            present.append(name)
            dn = f'jdf_{short}'
            txt, params, rr = it.translate(dn, name, 2, [FIELD])
            if txt is None or rr != 0 or len(params) != 1:
                raise TranslateError(f'JaxDiscreteField.{name}: {params}')
            defs.append(f'(* {name} *)\n{txt}')
            lemmas.append(f'Lemma {dn}_def : forall s : R, {dn} s = {UNARY[name]}.\nProof. intros. first [reflexivity | unfold {dn}; ring]. Qed.')
        elif name == '__pow__':
            present.append(name)
            for k in (2, 3):
                dn = f'jdf_pow{k}'
                fdef = methods[name]
                if [a.arg for a in fdef.args.args] != ['self', 'ix']:
                    raise TranslateError('JaxDiscreteField.__pow__ signature')
                it.n, it.fresh, it.depth = 2, 0, 0
                from .c20_tr import Field, Sym
                me = Field({a: None for a in ('value', 'grad', 'div', 'curl', 'hess', 'grad3', 'grad4', 'grad5', 'grad6')})
                me.attrs['value'] = Sym(0, lambda idx: 's', term='s')
                res = it.scalar(it.call(fdef, [me, k], {}))
                if res.rank != 0:
                    raise TranslateError('JaxDiscreteField.__pow__ result')
                defs.append(f'(* __pow__ with exponent {k} *)\nDefinition {dn} (s : R) : R :=\n  {res.at([])}.')
                want = '(s * s)' if k == 2 else '((s * s) * s)'
                lemmas.append(f'Lemma {dn}_def : forall s : R, {dn} s = {want}.\nProof. intros. first [reflexivity | unfold {dn}; ring]. Qed.')
    # powers with a non-constant exponent are not ring terms: the power function is an abstract symbol pw of the model
    # (``base ** exponent`` -> pw base exponent); what is checked is WHICH operand is the base
    for name, params, want in (('__pow__', ['self', 'ix'], 'pw s o'), ('__rpow__', ['self', 'other'], 'pw o s')):
        if name not in methods:
            continue
        fdef = methods[name]
        body = [st for st in fdef.body if not (isinstance(st, ast.Expr) and isinstance(st.value, ast.Constant))]
        if [a.arg for a in fdef.args.args] != params or len(body) != 1 or not isinstance(body[0], ast.Return) \
                or not isinstance(body[0].value, ast.BinOp) or not isinstance(body[0].value.op, ast.Pow):
            raise TranslateError(f'JaxDiscreteField.{name}: expected a single "return <a> ** <b>"')
        sym = {'self.value': 's', params[1]: 'o'}
        ops_ = []
        for side in (body[0].value.left, body[0].value.right):
            if t2.src(side) not in sym:
                raise TranslateError(f'JaxDiscreteField.{name}: operand {t2.src(side)}')
            ops_.append(sym[t2.src(side)])
        dn = 'jdf_' + name.strip('_') + '_sym'
        if name not in present:
            present.append(name)
        defs.append(f'(* {name}: {t2.src(body[0].value)} with an abstract power function *)\n'
                    f'Definition {dn} (pw : R -> R -> R) (s o : R) : R :=\n  pw {ops_[0]} {ops_[1]}.')
        lemmas.append(f'Lemma {dn}_def : forall (pw : R -> R -> R) (s o : R), {dn} pw s o = {want}.\nProof. intros. reflexivity. Qed.')
    order_txt = field_order_defs(it, cl)
    txt = (f'(* GENERATED by vlib/c20_ops.py from {SRC} (class JaxDiscreteField) -- do not edit *)\n'
           'From Coq Require Import Ring.\nRequire Import Base.C20_Ring.\nSection Gen.\nContext {R : Type} {ops : FOps R}.\nOpen Scope F_scope.\n\n'
           + '\n'.join(defs) + '\n\n(* each special method is the operator it implements (commutativity of + and * is the only law used) *)\n'
           'Hypothesis Rth : ring_theory f0 f1 fadd fmul fsub fopp (@eq R).\nAdd Ring Rring20o : Rth.\n'
           + '\n'.join(lemmas) + '\nEnd Gen.\n' + order_txt)
    return txt, present


DF_SRC = 'skfem/element/discrete_field.py'


def _names(lst):
    return '[' + '; '.join(f'"{x}"' for x in lst) + ']%string'


def field_order_defs(it, jcl):
    """the order in which the components of a field travel from DiscreteField to JaxDiscreteField:
    ``JaxDiscreteField(*c.astuple)`` unpacks DiscreteField.astuple (value, then ``_extra_attrs``) POSITIONALLY into
    JaxDiscreteField.__init__; JaxDiscreteField.astuple / the pytree registration use the same positional convention"""
    tree = t2.parse(DF_SRC)
    cl = t2.only([n for n in tree.body if isinstance(n, ast.ClassDef) and n.name == 'DiscreteField'], 'class DiscreteField')
    extra = None
    for st in cl.body:
        if isinstance(st, ast.Assign) and t2.src(st.targets[0]) == '_extra_attrs':
            try:
                extra = list(ast.literal_eval(st.value))
            except (ValueError, SyntaxError):
                raise TranslateError('DiscreteField._extra_attrs is not a literal tuple')
    meths = {n.name: n for n in cl.body if isinstance(n, ast.FunctionDef)}
    if extra is None or '__new__' not in meths or 'astuple' not in meths or 'get' not in meths:
        raise TranslateError('DiscreteField: _extra_attrs / __new__ / get / astuple')
    if 'return tuple((self.get(i) for i in range(len(self._extra_attrs) + 1)))' not in t2.src(meths['astuple']):
        raise TranslateError('DiscreteField.astuple changed')
    if 'return np.array(self)' not in t2.src(meths['get']) or 'return getattr(self, self._extra_attrs[n - 1])' not in t2.src(meths['get']):
        raise TranslateError('DiscreteField.get changed')
    df_astuple = ['value'] + extra
    df_new = [a.arg for a in meths['__new__'].args.args][1:]
    jm = {n.name: n for n in jcl.body if isinstance(n, ast.FunctionDef)}
    jdf_init = [a.arg for a in jm['__init__'].args.args][1:]
    ret = [st for st in jm['astuple'].body if isinstance(st, ast.Return)]
    if len(ret) != 1 or not isinstance(ret[0].value, ast.Tuple):
        raise TranslateError('JaxDiscreteField.astuple is not a tuple literal')
    jdf_astuple = []
    for e in ret[0].value.elts:
        if not (isinstance(e, ast.Attribute) and t2.src(e.value) == 'self'):
            raise TranslateError('JaxDiscreteField.astuple entry ' + t2.src(e))
        jdf_astuple.append(e.attr)
    # every constructor stores each argument under its own name
    for a in jdf_init:
        if f'self.{a} = {a}' not in t2.src(jm['__init__']):
            raise TranslateError(f'JaxDiscreteField.__init__ does not store {a} as self.{a}')
    for a in df_new[1:]:
        if f'obj.{a} = {a}' not in t2.src(meths['__new__']):
            raise TranslateError(f'DiscreteField.__new__ does not store {a} as obj.{a}')
    return ('\n(* positional order of the field components: DiscreteField.astuple -> JaxDiscreteField( *c.astuple ) *)\n'
            'From Coq Require Import String List.\nImport ListNotations.\n'
            f'Definition df_astuple_order : list string := {_names(df_astuple)}.\n'
            f'Definition df_new_order : list string := {_names(df_new)}.\n'
            f'Definition jdf_init_order : list string := {_names(jdf_init)}.\n'
            f'Definition jdf_astuple_order : list string := {_names(jdf_astuple)}.\n'
            'Lemma field_orders_agree : df_astuple_order = jdf_init_order /\\ jdf_astuple_order = jdf_init_order /\\ '
            'df_new_order = df_astuple_order.\nProof. repeat split; reflexivity. Qed.\n')
