"""T2: fail-closed Python-``ast`` -> Gallina expression translator (DESIGN.md section 3).

Only a small, explicitly listed subset of Python is understood; anything else raises
:class:`TranslateError`, which a check reports as a broken tie.
"""
import ast
import os

from .core import REPO, TranslateError


def parse(relpath):
    path = os.path.join(REPO, relpath)
    try:
        return ast.parse(open(path).read(), filename=path)
    except (OSError, SyntaxError) as e:
        raise TranslateError(f'{relpath}: cannot parse: {e}')


def find_def(tree, name, cls=None):
    """the FunctionDef ``name`` (inside class ``cls`` if given); exactly one must exist"""
    hits = []
    if cls is None:
        scope = [n for n in ast.walk(tree)]
    else:
        cl = [n for n in ast.walk(tree) if isinstance(n, ast.ClassDef) and n.name == cls]
        if len(cl) != 1:
            raise TranslateError(f'class {cls}: {len(cl)} definitions')
        scope = list(ast.walk(cl[0]))
    for n in scope:
        if isinstance(n, ast.FunctionDef) and n.name == name:
            hits.append(n)
    if len(hits) != 1:
        raise TranslateError(f'function {cls}.{name}: {len(hits)} definitions')
    return hits[0]


def src(n):
    return ast.unparse(n)


def dotted(n):
    """a.b.c -> 'a.b.c' (names and attributes only)"""
    if isinstance(n, ast.Name):
        return n.id
    if isinstance(n, ast.Attribute):
        return dotted(n.value) + '.' + n.attr
    raise TranslateError('not a dotted name: ' + src(n))


class Expr:
    """arithmetic expression translator.

    ``env`` maps dotted Python names to Coq identifiers.  ``mode``: 'nat' (truncated
    subtraction is refused: '-' raises), 'Z' or 'ring' (generic operations by notation).
    ``sub`` optionally translates Subscript nodes."""

    def __init__(self, env, mode='Z', sub=None, call=None):
        self.env, self.mode, self.sub, self.call = env, mode, sub, call

    def lit(self, v):
        if isinstance(v, bool) or not isinstance(v, int):
            raise TranslateError(f'literal {v!r}')
        if self.mode == 'nat':
            if v < 0:
                raise TranslateError('negative literal in nat expression')
            return str(v)
        return str(v) if v >= 0 else f'(- {-v})'

    def tr(self, n):
        if isinstance(n, ast.Constant):
            return self.lit(n.value)
        if isinstance(n, (ast.Name, ast.Attribute)):
            d = dotted(n)
            if d not in self.env:
                raise TranslateError(f'unknown name {d}')
            return self.env[d]
        if isinstance(n, ast.BinOp):
            ops = {ast.Add: '+', ast.Mult: '*'}
            if self.mode != 'nat':
                ops[ast.Sub] = '-'
            if self.mode == 'field':
                ops[ast.Div] = '/'
            if self.mode in ('nat', 'Z'):
                ops[ast.FloorDiv] = '/'
                ops[ast.Mod] = 'mod'
            op = ops.get(type(n.op))
            if op is None:
                if isinstance(n.op, ast.Pow) and isinstance(n.right, ast.Constant) and n.right.value == 2:
                    a = self.tr(n.left)
                    return f'({a} * {a})'
                raise TranslateError('operator ' + type(n.op).__name__ + ' in ' + src(n))
            return f'({self.tr(n.left)} {op} {self.tr(n.right)})'
        if isinstance(n, ast.UnaryOp) and isinstance(n.op, ast.USub) and self.mode != 'nat':
            return f'(- {self.tr(n.operand)})'
        if isinstance(n, ast.Subscript) and self.sub is not None:
            return self.sub(self, n)
        if isinstance(n, ast.Call) and self.call is not None:
            return self.call(self, n)
        raise TranslateError('unsupported expression: ' + src(n)[:120])


def is_range_of(n):
    """``range(e)`` -> e"""
    if (isinstance(n, ast.Call) and isinstance(n.func, ast.Name) and n.func.id == 'range'
            and len(n.args) == 1 and not n.keywords):
        return n.args[0]
    raise TranslateError('expected range(<e>): ' + src(n))


def only(seq, what):
    seq = list(seq)
    if len(seq) != 1:
        raise TranslateError(f'{what}: expected exactly one, found {len(seq)}')
    return seq[0]


def index_tuple(n):
    """subscript indices as a list of nodes"""
    s = n.slice
    if isinstance(s, ast.Tuple):
        return list(s.elts)
    return [s]
