"""C20 — fail-closed translator of the COO bookkeeping of NonlinearForm._assemble
(skfem/autodiff/__init__.py) into the record ``gen_pieces : Model.C20_Nonlin.pieces``.

Every statement of the assembly part of the method must be one of the shapes listed here; the index
expressions (slice bounds, which loop variable selects the row / column dofs, the data slot, which basis
function is the test function of ``linearize`` and which the direction of the Jacobian-vector product, the
shape of ``data`` before ``flatten('C')``, the sign of the residual) are re-read on every run.
"""
import ast

from . import t2
from .core import TranslateError

SRC = 'skfem/autodiff/__init__.py'
JDF = 'tuple((JaxDiscreteField(*c.astuple) for c in basis.basis[%s]))'


def _assign(stmts, target):
    hits = [s for s in stmts if isinstance(s, ast.Assign) and len(s.targets) == 1 and t2.src(s.targets[0]) == target]
    return t2.only(hits, f'assignment to {target}').value


def translate():
    tree = t2.parse(SRC)
    fn = t2.find_def(tree, '_assemble', 'NonlinearForm')
    body = fn.body
    if t2.src(_assign(body, 'nt')) != 'basis.nelems' or t2.src(_assign(body, 'dx')) != 'basis.dx':
        raise TranslateError('nt / dx definitions changed')
    env = {'basis.Nbfun': 'Nb', 'nt': 'nt'}
    ex = t2.Expr(env, 'nat')
    # ---- allocation
    sz = ex.tr(_assign(body, 'sz'))
    sz1 = ex.tr(_assign(body, 'sz1'))
    alloc = {}
    for name in ('data', 'rows', 'cols', 'data1', 'rows1'):
        hits = [s for s in body if isinstance(s, ast.Assign) and t2.src(s.targets[0]) == name
                and isinstance(s.value, ast.Call) and t2.src(s.value.func) == 'np.zeros']
        call = t2.only(hits, f'{name} = np.zeros(...)').value
        alloc[name] = call.args[0]
    shp = alloc['data']
    if not (isinstance(shp, ast.Tuple) and len(shp.elts) == 3):
        raise TranslateError('data shape: ' + t2.src(shp))
    shape = [ex.tr(e) for e in shp.elts]
    if [t2.src(alloc[k]) for k in ('rows', 'cols', 'data1', 'rows1')] != ['sz', 'sz', 'sz1', 'sz1']:
        raise TranslateError('allocation sizes of rows/cols/data1/rows1 changed')
    # ---- the differentiation call
    mj = t2.only([s for s in body if isinstance(s, ast.FunctionDef)], 'inner function definitions')
    if mj.name != '_make_jacobian' or [a.arg for a in mj.args.args] != ['V']:
        raise TranslateError('_make_jacobian signature')
    want = ("if self.params.get('hessian', False):\n"
            "    return linearize(lambda W: jvp(lambda U: self.form(*U, w), (W,), (V,))[1], x)\n"
            "return linearize(lambda U: self.form(*U, *V, w), x)")
    got = '\n'.join(t2.src(s) for s in mj.body)
    if got != want:
        raise TranslateError('_make_jacobian body changed:\n' + got)
    # ---- the loops
    outer = t2.only([s for s in body if isinstance(s, ast.For)], 'outer loop')
    if t2.src(t2.is_range_of(outer.iter)) != 'basis.Nbfun' or not isinstance(outer.target, ast.Name) or outer.orelse:
        raise TranslateError('outer loop header: ' + t2.src(outer)[:80])
    iv = outer.target.id
    if len(outer.body) != 5:
        raise TranslateError(f'outer loop body has {len(outer.body)} statements, expected 5')
    lin, inner, s_ixs1, s_rows1, s_data1 = outer.body
    if not (isinstance(lin, ast.Assign) and t2.src(lin.targets[0]) in ('(y, DF)', 'y, DF')):
        raise TranslateError('linearize statement: ' + t2.src(lin)[:80])
    test = _basis_index(lin.value, '_make_jacobian', {iv: 'i'})
    if not (isinstance(inner, ast.For) and isinstance(inner.target, ast.Name) and not inner.orelse
            and t2.src(t2.is_range_of(inner.iter)) == 'basis.Nbfun'):
        raise TranslateError('inner loop header: ' + t2.src(inner)[:80])
    jv = inner.target.id
    if jv == iv or len(inner.body) != 5:
        raise TranslateError('inner loop shape')
    s_dfu, s_ixs, s_rows, s_cols, s_data = inner.body
    if not (isinstance(s_dfu, ast.Assign) and t2.src(s_dfu.targets[0]) == 'DFU'):
        raise TranslateError('DFU statement: ' + t2.src(s_dfu)[:80])
    direction = _basis_index(s_dfu.value, 'DF', {iv: 'i', jv: 'j'})
    ex2 = t2.Expr(dict(env, **{iv: 'i', jv: 'j'}), 'nat')
    lo, hi = _slice(s_ixs, 'ixs', ex2)
    rows = _dof_store(s_rows, 'rows', 'ixs', {iv: 'i', jv: 'j'})
    cols = _dof_store(s_cols, 'cols', 'ixs', {iv: 'i', jv: 'j'})
    # data[a, b, :] = np.sum(DFU * dx, axis=1)
    if not (isinstance(s_data, ast.Assign) and isinstance(s_data.targets[0], ast.Subscript) and t2.src(s_data.targets[0].value) == 'data'
            and t2.src(s_data.value) == 'np.sum(DFU * dx, axis=1)'):
        raise TranslateError('data store: ' + t2.src(s_data)[:80])
    ix = t2.index_tuple(s_data.targets[0])
    if len(ix) != 3 or t2.src(ix[2]) != ':' or not all(isinstance(e, ast.Name) and e.id in (iv, jv) for e in ix[:2]):
        raise TranslateError('data store index: ' + t2.src(s_data.targets[0]))
    slot = tuple({iv: 'i', jv: 'j'}[e.id] for e in ix[:2])
    ex1 = t2.Expr(dict(env, **{iv: 'i'}), 'nat')
    lo1, hi1 = _slice(s_ixs1, 'ixs1', ex1)
    rows1 = _dof_store(s_rows1, 'rows1', 'ixs1', {iv: 'i'})
    if t2.src(s_data1) != 'data1[ixs1] = np.sum(y * dx, axis=1)':
        raise TranslateError('data1 store: ' + t2.src(s_data1)[:80])
    # ---- flatten and return
    pos = body.index(outer)
    flat = [k for k, s in enumerate(body) if t2.src(s) == "data = data.flatten('C')"]
    if len(flat) != 1 or flat[0] < pos:
        raise TranslateError("data = data.flatten('C') must follow the loops")
    ret = body[-1]
    if not (isinstance(ret, ast.Return) and isinstance(ret.value, ast.Tuple) and len(ret.value.elts) == 2):
        raise TranslateError('return statement')
    mat, vec = (t2.src(e) for e in ret.value.elts)
    if mat != '(np.array([rows, cols]), data, (basis.N, basis.N), (basis.Nbfun, basis.Nbfun))':
        raise TranslateError('returned matrix tuple: ' + mat)
    if vec == '(np.array([rows1]), -data1, (basis.N,), (basis.Nbfun,))':
        neg = 'true'
    elif vec == '(np.array([rows1]), data1, (basis.N,), (basis.Nbfun,))':
        neg = 'false'
    else:
        raise TranslateError('returned vector tuple: ' + vec)
    # nothing else may store into the arrays
    stores = [t2.src(s) for s in ast.walk(fn) if isinstance(s, (ast.Assign, ast.AugAssign))
              and any(isinstance(t, ast.Subscript) for t in (s.targets if isinstance(s, ast.Assign) else [s.target]))]
    if len(stores) != 5:
        raise TranslateError(f'unexpected array stores: {stores}')
    return f'''(* GENERATED by vlib/c20_nl.py from {SRC} (NonlinearForm._assemble) -- do not edit *)
From Coq Require Import List Arith.
Require Import Base.C20_Ring Model.C20_Nonlin.
Definition gen_pieces : pieces := {{|
  p_lo := fun Nb nt i j => {lo};
  p_hi := fun Nb nt i j => {hi};
  p_rows := fun i j => {rows};
  p_cols := fun i j => {cols};
  p_slot := fun i j => ({slot[0]}, {slot[1]});
  p_test := fun i => {test};
  p_dir := fun i j => {direction};
  p_lo1 := fun nt i => {lo1};
  p_hi1 := fun nt i => {hi1};
  p_rows1 := fun i => {rows1};
  p_shape := fun Nb nt => ({shape[0]}, {shape[1]}, {shape[2]});
  p_negate_rhs := {neg} |}}.
Definition gen_jac_len (Nb nt : nat) : nat := {sz}.
Definition gen_rhs_len (Nb nt : nat) : nat := {sz1}.
'''


def _basis_index(call, fname, allowed):
    """``fname(tuple((JaxDiscreteField(*c.astuple) for c in basis.basis[v])))`` -> 'i' | 'j'"""
    if not (isinstance(call, ast.Call) and t2.src(call.func) == fname and len(call.args) == 1 and not call.keywords):
        raise TranslateError(f'{fname} call: ' + t2.src(call)[:100])
    for v in sorted(allowed):
        if t2.src(call.args[0]) == JDF % v:
            return allowed[v]
    raise TranslateError(f'{fname} argument: ' + t2.src(call.args[0])[:120])


def _slice(st, name, ex):
    if not (isinstance(st, ast.Assign) and t2.src(st.targets[0]) == name and isinstance(st.value, ast.Call)
            and t2.src(st.value.func) == 'slice' and len(st.value.args) == 2 and not st.value.keywords):
        raise TranslateError(f'{name} = slice(lo, hi): ' + t2.src(st)[:80])
    return ex.tr(st.value.args[0]), ex.tr(st.value.args[1])


def _dof_store(st, arr, ixs, names):
    """``arr[ixs] = basis.element_dofs[v]`` -> the model name of v"""
    if not (isinstance(st, ast.Assign) and t2.src(st.targets[0]) == f'{arr}[{ixs}]' and isinstance(st.value, ast.Subscript)
            and t2.src(st.value.value) == 'basis.element_dofs' and isinstance(st.value.slice, ast.Name)
            and st.value.slice.id in names):
        raise TranslateError(f'{arr} store: ' + t2.src(st)[:80])
    return names[st.value.slice.id]
