"""C12: what the five ``_uniform`` methods and ``Mesh.refined`` say, read from the source (fail closed)."""
import ast

from . import t2
from .c12_t2 import (ONE, ZERO, Lin, Sym, TranslateError, coq_templates, offsets, pblocks, replace_kwargs,
                     simple_assigns, templates)

FILES = {
    'line': ('skfem/mesh/mesh_line_1.py', 'MeshLine1'),
    'tri': ('skfem/mesh/mesh_tri_1.py', 'MeshTri1'),
    'quad': ('skfem/mesh/mesh_quad_1.py', 'MeshQuad1'),
    'tet': ('skfem/mesh/mesh_tet_1.py', 'MeshTet1'),
    'hex': ('skfem/mesh/mesh_hex_1.py', 'MeshHex1'),
}
SECOND = {
    'tri2': ('skfem/mesh/mesh_tri_2.py', 'MeshTri2', 'MeshTri1'),
    'quad2': ('skfem/mesh/mesh_quad_2.py', 'MeshQuad2', 'MeshQuad1'),
    'tet2': ('skfem/mesh/mesh_tet_2.py', 'MeshTet2', 'MeshTet1'),
    'hex2': ('skfem/mesh/mesh_hex_2.py', 'MeshHex2', 'MeshHex1'),
}


def _uniform_def(kind):
    f, c = FILES[kind]
    return t2.find_def(t2.parse(f), '_uniform', c)


def _is_none(n):
    return isinstance(n, ast.Constant) and n.value is None


def _tag_kw(kw, name):
    """how replace(...) sets a tag dictionary: 'none' | 'kept' (keyword absent) | ('expr', node)"""
    if name not in kw:
        return 'kept'
    if _is_none(kw[name]):
        return 'none'
    return ('expr', kw[name])


# ----------------------------------------------------------------------------- boundary map (tri, quad)

def _boundary_block(ifnode, sym, mname='m'):
    """the ``if self._boundaries is not None:`` block of MeshTri1/MeshQuad1._uniform.

    returns the list of assignments (row, old local facet a, new local facet b, child c) in source order."""
    if t2.src(ifnode.test) != 'self._boundaries is not None' or ifnode.orelse:
        raise TranslateError('boundary guard: ' + t2.src(ifnode.test))
    mult = {}
    assigns = []
    seen_alloc = False
    final = None
    for s in ifnode.body:
        if not isinstance(s, ast.Assign) or len(s.targets) != 1:
            raise TranslateError('boundary block statement: ' + t2.src(s)[:80])
        tgt, val = s.targets[0], s.value
        ts, vs = t2.src(tgt), t2.src(val)
        if ts == 'new_facets':
            if vs != 'np.zeros((2, self.facets.shape[1]), dtype=np.int32)':
                raise TranslateError('new_facets allocation: ' + vs)
            seen_alloc = True
        elif isinstance(tgt, ast.Name) and tgt.id.startswith('ix'):
            if vs in ('np.arange(t.shape[1], dtype=np.int32)', 'np.arange(t.shape[1])'):
                if sym.env.get('t') != ('TAB', 'V', ZERO):
                    raise TranslateError('t is not self.t')
                mult[tgt.id] = 0
            elif (isinstance(val, ast.BinOp) and isinstance(val.op, ast.Add) and isinstance(val.left, ast.Name)
                  and val.left.id in mult):
                r = t2.src(val.right)
                if r == 't.shape[1]':
                    mult[tgt.id] = mult[val.left.id] + 1
                elif (isinstance(val.right, ast.BinOp) and isinstance(val.right.op, ast.Mult)
                      and isinstance(val.right.left, ast.Constant) and isinstance(val.right.left.value, int)
                      and t2.src(val.right.right) == 't.shape[1]'):
                    mult[tgt.id] = mult[val.left.id] + val.right.left.value
                else:
                    raise TranslateError('child offset: ' + vs)
            else:
                raise TranslateError('child offset: ' + vs)
        elif isinstance(tgt, ast.Subscript) and t2.src(tgt.value) == 'new_facets':
            if not seen_alloc:
                raise TranslateError('new_facets used before allocation')
            ix = t2.index_tuple(tgt)
            if not (len(ix) == 2 and isinstance(ix[0], ast.Constant) and ix[0].value in (0, 1)):
                raise TranslateError('new_facets target: ' + ts)
            a = sym.ev(ix[1])
            if not (a[0] == 'ROW' and a[1] == 'F' and a[3] == ZERO and a[4] is None):
                raise TranslateError('new_facets target column: ' + ts)
            if not (isinstance(val, ast.Subscript) and t2.src(val.value) == mname + '.t2f'):
                raise TranslateError('new_facets value: ' + vs)
            vix = t2.index_tuple(val)
            if not (len(vix) == 2 and isinstance(vix[0], ast.Constant) and isinstance(vix[0].value, int)
                    and isinstance(vix[1], ast.Name) and vix[1].id in mult):
                raise TranslateError('new_facets value: ' + vs)
            assigns.append((ix[0].value, a[2], vix[0].value, mult[vix[1].id]))
        elif ts == mname:
            kw = replace_kwargs(val, first=mname)
            if set(kw) != {'_boundaries'} or t2.src(kw['_boundaries']) != (
                    '{name: np.sort(new_facets[:, ixs].flatten()) for name, ixs in self._boundaries.items()}'):
                raise TranslateError('boundary dictionary: ' + vs[:120])
            final = True
        else:
            raise TranslateError('boundary block statement: ' + t2.src(s)[:80])
    if not final:
        raise TranslateError('boundary block does not store _boundaries')
    return assigns


def _tri_quad(kind):
    fn = _uniform_def(kind)
    sym = Sym()
    rest = simple_assigns(fn, sym, stop_at={'m'})
    if len(rest) != 3:
        raise TranslateError(f'{kind}._uniform: unexpected statement count {len(rest)}')
    mk, ifb, ret = rest
    if not (isinstance(mk, ast.Assign) and t2.src(mk.targets[0]) == 'm'):
        raise TranslateError('m = replace(...) expected')
    kw = replace_kwargs(mk.value)
    if set(kw) != {'doflocs', 't', '_boundaries', '_subdomains'}:
        raise TranslateError('replace keywords: ' + repr(sorted(kw)))
    tp = templates(sym, kw['t'])
    res = {'kind': kind, 'templates': tp, 'off': offsets(tp), 'pblocks': pblocks(sym, kw['doflocs']),
           'sub': _tag_kw(kw, '_subdomains'), 'bnd_init': _tag_kw(kw, '_boundaries')}
    if not isinstance(ifb, ast.If):
        raise TranslateError('boundary block expected')
    res['bassign'] = _boundary_block(ifb, sym)
    if not (isinstance(ret, ast.Return) and t2.src(ret.value) == 'm'):
        raise TranslateError('return m expected')
    if res['bnd_init'] != 'none' or res['sub'] != 'none':
        raise TranslateError('tag keywords of the first replace changed')
    return res


def tr_tri():
    return _tri_quad('tri')


def tr_quad():
    return _tri_quad('quad')


def tr_hex():
    fn = _uniform_def('hex')
    sym = Sym()
    rest = simple_assigns(fn, sym, stop_at={'doflocs'})
    # doflocs = np.hstack(...);  t = np.hstack(...);  return replace(...)
    if len(rest) != 3:
        raise TranslateError(f'hex._uniform: unexpected statement count {len(rest)}')
    a, b, ret = rest
    if not (isinstance(a, ast.Assign) and t2.src(a.targets[0]) == 'doflocs'):
        raise TranslateError('doflocs = ... expected')
    pb = pblocks(sym, a.value)
    if not (isinstance(b, ast.Assign) and t2.src(b.targets[0]) == 't'):
        raise TranslateError('t = ... expected')
    tp = templates(sym, b.value)
    kw = replace_kwargs(ret.value) if isinstance(ret, ast.Return) else None
    if kw is None or set(kw) != {'doflocs', 't', '_boundaries', '_subdomains'} \
            or t2.src(kw['doflocs']) != 'doflocs' or t2.src(kw['t']) != 't':
        raise TranslateError('hex return replace(...)')
    return {'kind': 'hex', 'templates': tp, 'off': offsets(tp), 'pblocks': pb,
            'sub': _tag_kw(kw, '_subdomains'), 'bnd': _tag_kw(kw, '_boundaries')}


# ----------------------------------------------------------------------------- tetrahedron

def _tet_diag(n, sym):
    """((newp[0, t2e[A]] - newp[0, t2e[B]]) ** 2 + (newp[1, ...] - ...) ** 2 ...) -> (dims, A, B)"""
    terms = []

    def flat(x):
        if isinstance(x, ast.BinOp) and isinstance(x.op, ast.Add):
            flat(x.left)
            flat(x.right)
        else:
            terms.append(x)
    flat(n)
    dims, ab = [], set()
    for tm in terms:
        if not (isinstance(tm, ast.BinOp) and isinstance(tm.op, ast.Pow) and isinstance(tm.right, ast.Constant)
                and tm.right.value == 2 and isinstance(tm.left, ast.BinOp) and isinstance(tm.left.op, ast.Sub)):
            raise TranslateError('diagonal term: ' + t2.src(tm))
        ends = []
        for side in (tm.left.left, tm.left.right):
            if not (isinstance(side, ast.Subscript) and t2.src(side.value) == 'newp'):
                raise TranslateError('diagonal term: ' + t2.src(side))
            ix = t2.index_tuple(side)
            if not (len(ix) == 2 and isinstance(ix[0], ast.Constant) and isinstance(ix[0].value, int)):
                raise TranslateError('diagonal term: ' + t2.src(side))
            r = sym.ev(ix[1])
            if not (r[0] == 'ROW' and r[1] == 'E' and r[3] == sym.env['__offE'] and r[4] is None):
                raise TranslateError('diagonal index: ' + t2.src(side))
            ends.append((ix[0].value, r[2]))
        if ends[0][0] != ends[1][0]:
            raise TranslateError('diagonal mixes coordinates: ' + t2.src(tm))
        dims.append(ends[0][0])
        ab.add((ends[0][1], ends[1][1]))
    if len(ab) != 1:
        raise TranslateError('diagonal mixes edges')
    a, b = ab.pop()
    return dims, a, b


def _tet_submap(ifnode, nclasses):
    """the subdomain map of MeshTet1._uniform; returns a description checked against the fixed shape
    new_t[j] = arange(nt) + j*nt (j<4);  new_t[j, ck] = arange(nk) + j*nt + sum(n_l, l<k) (j>=4)"""
    if t2.src(ifnode.test) != 'self._subdomains is not None':
        raise TranslateError('subdomain guard')
    if [t2.src(s) for s in ifnode.orelse] != ['subdomains = None']:
        raise TranslateError('subdomain else branch')
    rows_full = {}
    rows_cls = {}
    counts = {}
    for s in ifnode.body:
        if isinstance(s, ast.If):
            m = s.test
            if not (isinstance(m, ast.Compare) and isinstance(m.left, ast.Name) and t2.src(m) == f'{m.left.id} > 0'
                    and not s.orelse):
                raise TranslateError('subdomain inner guard: ' + t2.src(m))
            for u in s.body:
                _tet_sub_assign(u, rows_full, rows_cls, counts)
            continue
        if not isinstance(s, ast.Assign):
            raise TranslateError('subdomain statement: ' + t2.src(s)[:60])
        ts, vs = t2.src(s.targets[0]), t2.src(s.value)
        if ts == 'nt' and vs == 't.shape[1]':
            continue
        if ts == 'new_t' and vs == 'np.zeros((8, nt), dtype=np.int32)':
            continue
        if ts in ('n1', 'n2', 'n3') and vs == f'np.sum(c{ts[1]})':
            counts[ts] = 'c' + ts[1]
            continue
        if ts == 'subdomains':
            if vs != '{name: np.sort(new_t[:, ixs].flatten()) for name, ixs in self._subdomains.items()}':
                raise TranslateError('subdomain dictionary: ' + vs[:100])
            continue
        _tet_sub_assign(s, rows_full, rows_cls, counts)
    return rows_full, rows_cls


def _tet_sub_assign(s, rows_full, rows_cls, counts):
    if not (isinstance(s, ast.Assign) and isinstance(s.targets[0], ast.Subscript)
            and t2.src(s.targets[0].value) == 'new_t'):
        raise TranslateError('subdomain statement: ' + t2.src(s)[:60])
    ix = t2.index_tuple(s.targets[0])
    vs = t2.src(s.value)
    if len(ix) == 1 and isinstance(ix[0], ast.Constant):
        j = ix[0].value
        if j == 0:
            if vs != 'np.arange(nt, dtype=np.int32)':
                raise TranslateError('new_t[0]: ' + vs)
        elif vs != f'new_t[{j - 1}] + nt':
            raise TranslateError(f'new_t[{j}]: ' + vs)
        rows_full[j] = j        # new_t[j][k] = k + j*nt
        return
    if len(ix) == 2 and isinstance(ix[0], ast.Constant) and isinstance(ix[1], ast.Name):
        j, c = ix[0].value, ix[1].id
        k = int(c[1])
        want = f'np.arange(n{k}, dtype=np.int32) + {j} * nt' + ''.join(f' + n{l}' for l in range(1, k))
        if vs != want:
            raise TranslateError(f'new_t[{j}, {c}]: {vs!r} (expected {want!r})')
        rows_cls[(j, k - 1)] = True  # new_t[j][cell] = j*nt + (number of cells in lower classes) + rank within class
        return
    raise TranslateError('subdomain statement: ' + t2.src(s)[:60])


def tr_tet():
    fn = _uniform_def('tet')
    sym = Sym()
    rest = simple_assigns(fn, sym, stop_at={'newp'})
    if sym.env.get('t2e', (None, None, None))[:2] != ('TAB', 'E'):
        raise TranslateError('t2e')
    sym.env['__offE'] = sym.env['t2e'][2]
    # newp = hstack; d1,d2,d3; I1,I2,I3; c1,c2,c3; newt = hstack; if subdomains; return replace
    names = {}
    stmts = list(rest)
    if not (isinstance(stmts[0], ast.Assign) and t2.src(stmts[0].targets[0]) == 'newp'):
        raise TranslateError('newp = ... expected')
    pb = pblocks(sym, stmts[0].value)
    diags, comps, classes = {}, {}, {}
    k = 1
    while k < len(stmts) and isinstance(stmts[k], ast.Assign) and isinstance(stmts[k].targets[0], ast.Name) \
            and stmts[k].targets[0].id != 'newt':
        nm, v = stmts[k].targets[0].id, stmts[k].value
        if nm.startswith('d'):
            diags[nm] = _tet_diag(v, sym)
        elif nm.startswith('I'):
            if not (isinstance(v, ast.Compare) and len(v.ops) == 1 and isinstance(v.ops[0], ast.Lt)
                    and isinstance(v.left, ast.Name) and isinstance(v.comparators[0], ast.Name)):
                raise TranslateError('comparison: ' + t2.src(v))
            comps[nm] = (v.left.id, v.comparators[0].id)
        elif nm.startswith('c'):
            lits = []

            def fac(x):
                if isinstance(x, ast.BinOp) and isinstance(x.op, ast.Mult):
                    fac(x.left)
                    fac(x.right)
                elif isinstance(x, ast.UnaryOp) and isinstance(x.op, ast.Invert) and isinstance(x.operand, ast.Name):
                    lits.append((False, x.operand.id))
                elif isinstance(x, ast.Name):
                    lits.append((True, x.id))
                else:
                    raise TranslateError('class mask: ' + t2.src(x))
            fac(v)
            classes[nm] = lits
            sym.masks.add(nm)
        else:
            raise TranslateError('unexpected assignment ' + nm)
        k += 1
    if sorted(diags) != ['d1', 'd2', 'd3'] or sorted(comps) != ['I1', 'I2', 'I3'] or sorted(classes) != ['c1', 'c2', 'c3']:
        raise TranslateError('diagonal choice: unexpected names')
    newt = stmts[k]
    if not (isinstance(newt, ast.Assign) and t2.src(newt.targets[0]) == 'newt'):
        raise TranslateError('newt = ... expected')
    tp = templates(sym, newt.value)
    ifs, ret = stmts[k + 1], stmts[k + 2]
    if len(stmts) != k + 3 or not isinstance(ifs, ast.If):
        raise TranslateError('tet._uniform: unexpected tail')
    rows_full, rows_cls = _tet_submap(ifs, 3)
    if sorted(rows_full) != [0, 1, 2, 3] or sorted(rows_cls) != [(j, c) for j in range(4, 8) for c in range(3)]:
        raise TranslateError('tet subdomain rows')
    kw = replace_kwargs(ret.value) if isinstance(ret, ast.Return) else None
    if kw is None or set(kw) != {'doflocs', 't', '_boundaries', '_subdomains'} \
            or t2.src(kw['doflocs']) != 'newp' or t2.src(kw['t']) != 'newt' or t2.src(kw['_subdomains']) != 'subdomains':
        raise TranslateError('tet return replace(...)')
    # block layout: 4 full blocks then (j, class) blocks in the order j-major, class-minor
    layout = [c for c, _ in tp]
    if layout != [None] * 4 + ['c1', 'c2', 'c3'] * 4:
        raise TranslateError('tet block layout: ' + repr(layout))
    dn = ['d1', 'd2', 'd3']
    In = ['I1', 'I2', 'I3']
    return {'kind': 'tet', 'templates': tp, 'off': offsets(tp), 'pblocks': pb, 'sub': 'own',
            'bnd': _tag_kw(kw, '_boundaries'),
            'diags': [diags[d] for d in dn],
            'comps': [(dn.index(a), dn.index(b)) for a, b in (comps[i] for i in In)],
            'classes': [[(pol, In.index(nm)) for pol, nm in classes[c]] for c in ('c1', 'c2', 'c3')]}


# ----------------------------------------------------------------------------- line

def tr_line():
    fn = _uniform_def('line')
    sym = Sym()
    body = [s for s in fn.body if not (isinstance(s, ast.Expr) and isinstance(s.value, ast.Constant))]
    if t2.src(body[0]) != 'p, t = (self.doflocs, self.t)':
        raise TranslateError('line: p, t = ...: ' + t2.src(body[0]))
    sym.env['p'] = ('P',)
    sym.env['t'] = ('TAB', 'V', ZERO)
    if not (isinstance(body[1], ast.Assign) and t2.src(body[1].targets[0]) == 'newp'):
        raise TranslateError('line: newp')
    pb = pblocks(sym, body[1].value)
    if t2.src(body[2]) != 'newt = np.empty((t.shape[0], 2 * t.shape[1]), dtype=t.dtype)':
        raise TranslateError('line: newt allocation: ' + t2.src(body[2]))
    slots = {}
    k = 3
    while k < len(body) and isinstance(body[k], ast.Assign) and isinstance(body[k].targets[0], ast.Subscript) \
            and t2.src(body[k].targets[0].value) == 'newt':
        tgt = t2.src(body[k].targets[0])
        import re
        m = re.fullmatch(r'newt\[(\d), (::2|1::2)\]', tgt)
        if not m:
            raise TranslateError('line: target ' + tgt)
        row, par = int(m.group(1)), 0 if m.group(2) == '::2' else 1
        vs = t2.src(body[k].value)
        if vs in ('t[0]', 't[1]'):
            val = ('V', int(vs[2]), ZERO)
        elif vs in ('p.shape[1] + np.arange(t.shape[1])', 'np.arange(t.shape[1]) + p.shape[1]'):
            val = ('C', 0, Lin({'sz': 1}))
        else:
            mm = re.fullmatch(r'newt\[(\d), (::2|1::2)\]', vs)
            if not mm:
                raise TranslateError('line: value ' + vs)
            key = (int(mm.group(1)), 0 if mm.group(2) == '::2' else 1)
            if key not in slots:
                raise TranslateError('line: value read before written ' + vs)
            val = slots[key]
        if (row, par) in slots:
            raise TranslateError('line: slot written twice ' + tgt)
        slots[(row, par)] = val
        k += 1
    if sorted(slots) != [(0, 0), (0, 1), (1, 0), (1, 1)]:
        raise TranslateError('line: not all of newt assigned')
    tp = [(None, [slots[(0, 0)], slots[(1, 0)]]), (None, [slots[(0, 1)], slots[(1, 1)]])]
    rest = body[k:]
    sub = None
    if len(rest) == 1:
        pass
    elif len(rest) == 3:
        # subdomains = None ; if self._subdomains is not None: new_t = arange(2 nt).reshape((-1, 2)); subdomains = {...}
        if t2.src(rest[0]) != 'subdomains = None' or not isinstance(rest[1], ast.If) \
                or t2.src(rest[1].test) != 'self._subdomains is not None' or rest[1].orelse:
            raise TranslateError('line: subdomain block')
        bs = [t2.src(s) for s in rest[1].body]
        if bs != ['new_t = np.arange(2 * t.shape[1], dtype=np.int32).reshape((-1, 2))',
                  'subdomains = {name: np.sort(new_t[ixs].flatten()) for name, ixs in self._subdomains.items()}']:
            raise TranslateError('line: subdomain map: ' + repr(bs))
        sub = 'interleaved'      # new_t[k][j] = 2*k + j
    else:
        raise TranslateError('line: unexpected tail')
    ret = rest[-1]
    kw = replace_kwargs(ret.value) if isinstance(ret, ast.Return) else None
    if kw is None or t2.src(kw.get('doflocs')) != 'newp' or t2.src(kw.get('t')) != 'newt':
        raise TranslateError('line return replace(...)')
    if set(kw) - {'doflocs', 't', '_subdomains', '_boundaries'}:
        raise TranslateError('line replace keywords')
    s = _tag_kw(kw, '_subdomains')
    if s == 'none':
        subkind = 'none'
    elif s != 'kept' and s != 'none' and t2.src(s[1]) == 'subdomains' and sub == 'interleaved':
        subkind = 'interleaved'
    else:
        raise TranslateError('line: _subdomains keyword ' + repr(s))
    return {'kind': 'line', 'templates': tp, 'off': offsets(tp), 'pblocks': pb, 'sub': subkind,
            'bnd': _tag_kw(kw, '_boundaries')}


# ----------------------------------------------------------------------------- Mesh.refined

def tr_refined():
    fn = t2.find_def(t2.parse('skfem/mesh/mesh.py'), 'refined', 'Mesh')
    body = [s for s in fn.body if not (isinstance(s, ast.Expr) and isinstance(s.value, ast.Constant))]
    srcs = [t2.src(s) for s in body]
    if srcs[:3] != ['m = self', 'has_boundaries = self.boundaries is not None', 'has_subdomains = self.subdomains is not None']:
        raise TranslateError('refined: prologue ' + repr(srcs[:3]))
    top = body[3]
    if not (isinstance(top, ast.If) and t2.src(top.test) == 'np.ndim(times_or_ix) == 0'):
        raise TranslateError('refined: dispatch')
    # adaptive branch (N60): the selection is normalised here — boolean mask -> indices, empty selection -> int32 — and passed on
    want_ad = ['marked = np.asarray(times_or_ix)',
               'if marked.dtype == bool:\n    marked = np.nonzero(marked)[0]\nelif marked.size == 0:\n    marked = marked.astype(np.int32)',
               'm = m._adaptive(marked)']
    if [t2.src(s) for s in top.orelse] != want_ad:
        raise TranslateError('refined: adaptive branch: ' + repr([t2.src(s) for s in top.orelse]))
    loop = t2.only(top.body, 'refined: loop')
    if not (isinstance(loop, ast.For) and t2.src(loop.iter) == 'range(times_or_ix)' and not loop.orelse):
        raise TranslateError('refined: loop header')
    lb = loop.body
    if len(lb) != 3 or t2.src(lb[0]) != 'mtmp = m._uniform()' or t2.src(lb[2]) != 'm = mtmp':
        raise TranslateError('refined: loop body')
    fb = lb[1]
    if not (isinstance(fb, ast.If) and t2.src(fb.test) == 'm._subdomains is not None and mtmp._subdomains is None'
            and not fb.orelse):
        raise TranslateError('refined: fallback guard')
    fs = [t2.src(s) for s in fb.body]
    want = ['N = int(mtmp.t.shape[1] / m.t.shape[1])',
            'new_t = np.zeros((N, m.t.shape[1]), dtype=np.int32)',
            'new_t[0] = np.arange(m.t.shape[1], dtype=np.int32)',
            'for itr in range(N - 1):\n    new_t[itr + 1] = new_t[itr] + m.t.shape[1]',
            'mtmp = replace(mtmp, _subdomains={name: np.sort(new_t[:, ixs].flatten()) for name, ixs in m._subdomains.items()})']
    if fs != want:
        raise TranslateError('refined: fallback body changed: ' + repr(fs))
    tail = srcs[4:]
    warn_b = [s for s in body[4:] if isinstance(s, ast.If)]
    if len(warn_b) != 2 or t2.src(body[-1]) != 'return m':
        raise TranslateError('refined: epilogue')
    tests = [t2.src(w.test) for w in warn_b]
    if tests[0] != 'has_boundaries and m.boundaries is None':
        raise TranslateError('refined: boundary warning test ' + tests[0])
    if tests[1] == 'has_subdomains and m.subdomains is None':
        subwarn = 'result'
    elif tests[1] == 'has_subdomains and self.subdomains is None':
        subwarn = 'self'       # never fires: has_subdomains says self.subdomains is not None
    else:
        raise TranslateError('refined: subdomain warning test ' + tests[1])
    for w in warn_b:
        if len(w.body) != 1 or not t2.src(w.body[0]).startswith('logger.warning('):
            raise TranslateError('refined: warning body')
    return {'fallback': 'k+j*nt', 'subwarn': subwarn}


def _carry_body(fn_body, c, base, args):
    """m = replace(Base.from_mesh(self), _subdomains=self._subdomains).refined(<args>);
    return replace(C.from_mesh(m), _subdomains=m._subdomains)"""
    want = [f'm = replace({base}.from_mesh(self), _subdomains=self._subdomains).refined({args})',
            f'return replace({c}.from_mesh(m), _subdomains=m._subdomains)']
    return [t2.src(s) for s in fn_body] == want


def _nodoc(fn):
    return [s for s in fn.body if not (isinstance(s, ast.Expr) and isinstance(s.value, ast.Constant))]


def tr_second(kind):
    """how the second-order class refines uniformly: 'from_mesh' (all tags dropped, Mesh.refined applies the generic
    fallback) or 'carry' (refined as the first-order class WITH the subdomains, which are copied back)"""
    f, c, base = SECOND[kind]
    tree = t2.parse(f)
    body = _nodoc(t2.find_def(tree, '_uniform', c))
    if len(body) == 1 and t2.src(body[0]) == f'return {c}.from_mesh({base}.from_mesh(self).refined())':
        return {'kind': kind, 'via': 'from_mesh', 'sub': 'none'}
    if _carry_body(body, c, base, ''):
        return {'kind': kind, 'via': 'carry', 'sub': base}
    if len(body) == 1 and t2.src(body[0]) == 'return self._refined_linear()':
        h = t2.find_def(tree, '_refined_linear', c)
        if [a.arg for a in h.args.args] == ['self'] and h.args.vararg is not None and h.args.vararg.arg == 'args' \
                and _carry_body(_nodoc(h), c, base, '*args'):
            return {'kind': kind, 'via': 'carry', 'sub': base}
    raise TranslateError(f'{c}._uniform: unrecognised body: ' + ' ; '.join(t2.src(s) for s in body)[:200])


# ----------------------------------------------------------------------------- emit

def emit(kind_res):
    """Gallina text for one first-order class"""
    r = kind_res
    k = r['kind']
    off = r['off']
    lines = [f'(* {FILES[k][1]}._uniform *)',
             f'Definition gen_{k}_templates : list (list nref) :=\n  {coq_templates(r["templates"])}.']
    for kk, nm in (('E', 'offE'), ('F', 'offF'), ('C', 'offC')):
        o = off.get(kk)
        lines.append(f'Definition gen_{k}_{nm} (sz maxE maxF : nat) : nat := {o.coq() if o is not None else "0"}.')
    pb = []
    for how, ent in r['pblocks']:
        e = {'E': 'KE', 'F': 'KF', 'C': 'KC'}[ent]
        if how == 'mean':
            pb.append(f'PMean {e}')
        else:
            pb.append(f'PScaled ({how[1]} # {how[2]}) {e}')
    lines.append(f'Definition gen_{k}_pblocks : list pblock := [{"; ".join(pb)}].')
    if 'bassign' in r:
        lines.append(f'Definition gen_{k}_bassign : list (nat * nat * nat * nat) :=\n  ['
                     + '; '.join(f'({a}, {b}, {c}, {d})' for a, b, c, d in r['bassign']) + '].')
    if k == 'tet':
        lines.append('Definition gen_tet_diags : list (list nat * nat * nat) :=\n  ['
                     + '; '.join(f'([{"; ".join(map(str, d))}], {a}, {b})' for d, a, b in r['diags']) + '].')
        lines.append('Definition gen_tet_comps : list (nat * nat) := ['
                     + '; '.join(f'({a}, {b})' for a, b in r['comps']) + '].')
        lines.append('Definition gen_tet_classes : list (list (bool * nat)) := ['
                     + '; '.join('[' + '; '.join(f'({"true" if p else "false"}, {i})' for p, i in c) + ']'
                                 for c in r['classes']) + '].')
    return '\n'.join(lines) + '\n'


# ----------------------------------------------------------------------------- whole generated file

def _refdom_tables():
    """T1: the reference-cell tables, read from the imported (current) skfem.refdom"""
    from skfem import refdom as R
    out = []

    def nats(ll):
        return '[' + '; '.join('[' + '; '.join(str(int(x)) for x in l) + ']' for l in ll) + ']'

    def pts(P):
        from fractions import Fraction
        cols = []
        for i in range(P.shape[1]):
            cols.append('[' + '; '.join(f'({Fraction(float(x)).numerator} # {Fraction(float(x)).denominator})%Q'
                                        for x in P[:, i]) + ']')
        return '[' + '; '.join(cols) + ']'
    for nm, cls in (('line', R.RefLine), ('tri', R.RefTri), ('quad', R.RefQuad), ('tet', R.RefTet), ('hex', R.RefHex)):
        out.append(f'Definition gen_{nm}_rfacets : list (list nat) := {nats(cls.facets)}.')
        out.append(f'Definition gen_{nm}_redges : list (list nat) := {nats(cls.edges or [])}.')
        out.append(f'Definition gen_{nm}_rp : list point := {pts(cls.p)}.')
        out.append(f'Definition gen_{nm}_nnodes : nat := {int(cls.nnodes)}.')
    return '\n'.join(out) + '\n'


def gen_text():
    """returns (Coq text, summary dict).  Raises TranslateError."""
    res = {'tri': tr_tri(), 'quad': tr_quad(), 'hex': tr_hex(), 'tet': tr_tet(), 'line': tr_line()}
    ref = tr_refined()
    sec = {k: tr_second(k) for k in SECOND}
    parts = ['(* GENERATED by vlib/c12_src.py from skfem/mesh/*.py and skfem/refdom.py — do not edit *)',
             'From Coq Require Import List Arith ZArith QArith.', 'Import ListNotations.',
             'Require Import Model.C12_Refine.', 'Local Open Scope nat_scope.', '']
    for k in ('line', 'tri', 'quad', 'tet', 'hex'):
        parts.append(emit(res[k]))
    parts.append(_refdom_tables())
    parts.append('(* Mesh.refined: new_t[0] = arange(nt); new_t[itr + 1] = new_t[itr] + nt *)\n'
                 'Definition gen_fallback_index (nt j k : nat) : nat := k + j * nt.\n')
    # effective subdomain map of each class = its own map if _uniform stores one, else the generic fallback
    eff = {}
    for k in ('tri', 'quad', 'hex'):
        if res[k]['sub'] != 'none':
            raise TranslateError(f'{k}: unexpected own subdomain map')
        eff[k] = 'fallback'
        parts.append(f'Definition gen_{k}_submap (nt j k : nat) : nat := gen_fallback_index nt j k.'
                     f'  (* {FILES[k][1]}._uniform passes _subdomains=None *)')
    if res['line']['sub'] == 'interleaved':
        eff['line'] = 'own'
        parts.append('Definition gen_line_submap (nt j k : nat) : nat := 2 * k + j.'
                     '  (* new_t = arange(2 nt).reshape((-1, 2)); new_t[ixs] *)')
    else:
        eff['line'] = 'fallback'
        parts.append('Definition gen_line_submap (nt j k : nat) : nat := gen_fallback_index nt j k.'
                     '  (* MeshLine1._uniform passes _subdomains=None *)')
    eff['tet'] = 'own'
    parts.append('''(* MeshTet1._uniform: new_t[j] = arange(nt) + j nt (j < 4);
   new_t[j, c_m] = arange(n_m) + j nt + n_1 + ... + n_(m-1)  (j >= 4) *)
Definition gen_tet_submap (cls : list nat) (j k : nat) : nat :=
  let nt := length cls in
  if j <? 4 then k + j * nt
  else rank_in_cls cls k + j * nt
       + match nth k cls 0 with 0 => 0 | 1 => count_cls cls 0 | _ => count_cls cls 0 + count_cls cls 1 end.''')
    for k in SECOND:
        base = {'tri2': 'tri', 'quad2': 'quad', 'tet2': 'tet', 'hex2': 'hex'}[k]
        via = 'ViaFromMesh' if sec[k]['via'] == 'from_mesh' else 'ViaCarry'
        parts.append(f'Definition gen_{k}_via : via2 := {via}.')
        if base == 'tet':
            parts.append(f'Definition gen_{k}_submap (cls : list nat) (j k : nat) : nat :=\n'
                         f'  match gen_{k}_via with ViaCarry => gen_tet_submap cls j k | ViaFromMesh => gen_fallback_index (length cls) j k end.')
        else:
            parts.append(f'Definition gen_{k}_submap (nt j k : nat) : nat :=\n'
                         f'  match gen_{k}_via with ViaCarry => gen_{base}_submap nt j k | ViaFromMesh => gen_fallback_index nt j k end.')
        if sec[k]['via'] == 'from_mesh':
            parts.append(f'(* {SECOND[k][1]}._uniform = {SECOND[k][1]}.from_mesh({SECOND[k][2]}.from_mesh(self).refined()): '
                         f'no tags survive, Mesh.refined applies the generic fallback *)')
            eff[k] = 'fallback'
        else:
            parts.append(f'(* {SECOND[k][1]}._uniform refines as {SECOND[k][2]} carrying the subdomains: same map as {SECOND[k][2]} *)')
            eff[k] = eff[{'tri2': 'tri', 'quad2': 'quad', 'tet2': 'tet', 'hex2': 'hex'}[k]]
    # Mesh.refined: the dispatch, emitted from the statements tr_refined() has just verified one by one:
    #   if np.ndim(times_or_ix) == 0: for _ in range(times_or_ix): <uniform step>      else: marked = np.asarray(...);
    #   bool -> np.nonzero(marked)[0]; empty -> astype(int32) (same indices); m._adaptive(marked)
    parts.append('''
(* Mesh.refined(times_or_ix): scalar -> that many passes of the uniform loop body; otherwise the selection is normalised
   (boolean mask -> np.nonzero(mask)[0]; an empty selection only changes dtype) and handed to _adaptive *)
Definition gen_refined_dispatch {M : Type} (ustep : M -> M) (adapt : list nat -> M -> M) (arg : rarg) (m : M) : M :=
  match arg with
  | RScalar n => Nat.iter (Z.to_nat n) ustep m
  | RIndex ix => adapt ix m
  | RMask b => adapt (filter (fun k => nth k b false) (seq 0 (length b))) m
  end.''')
    parts.append('''
(* packaging of the pieces above *)
Definition mk_spec tpls pb (oe of_ oc : nat -> nat -> nat -> nat) : spec :=
  {| sp_tpls := tpls; sp_pblocks := pb;
     sp_off := fun sz mE mF => {| offE := oe sz mE mF; offF := of_ sz mE mF; offC := oc sz mE mF |} |}.
Definition line_spec := mk_spec gen_line_templates gen_line_pblocks gen_line_offE gen_line_offF gen_line_offC.
Definition tri_spec := mk_spec gen_tri_templates gen_tri_pblocks gen_tri_offE gen_tri_offF gen_tri_offC.
Definition quad_spec := mk_spec gen_quad_templates gen_quad_pblocks gen_quad_offE gen_quad_offF gen_quad_offC.
Definition tet_spec := mk_spec gen_tet_templates gen_tet_pblocks gen_tet_offE gen_tet_offF gen_tet_offC.
Definition hex_spec := mk_spec gen_hex_templates gen_hex_pblocks gen_hex_offE gen_hex_offF gen_hex_offC.''')
    txt = '\n'.join(parts) + '\n'
    return txt, {'res': res, 'refined': ref, 'second': sec, 'effective_submap': eff}
