"""C12/C13 coverage audit: public constructors, call forms and operations that forward to the refinement core.

Every case ends in ``check_one_step`` (C12) / ``check_adaptive`` (C13), i.e. in the exact oracle of the property, or in a
comparison with the core path.  The table of covered callables goes into the evidence (``api_coverage``)."""
import numpy as np

from . import c12_exact as ex
from . import c12_meshes as gm

# callable -> (covered before this audit, where it is covered now / why it is out of scope)
TABLE = [
    ('Mesh.refined(int) / refined(index array)', True, 'oracle + correspondence (all five cell types, k <= 3, histories)'),
    ('Mesh.refined(times_or_ix=...) keyword, refined(0), refined(negative), refined(True)', False,
     'api: keyword form equals positional; 0 / negative return the mesh itself; True = one uniform refinement (scalar)'),
    ('Mesh.refined(np.integer)', True, 'oracle (N40)'),
    ('Mesh.refined(list / tuple / bool mask / empty forms)', True, 'C13 oracle (N60)'),
    ('Mesh*._uniform of MeshLine1 / Tri1 / Quad1 / Tet1 / Hex1', True, 'translator + model + correspondence + oracle'),
    ('MeshTri2 / Quad2 / Tet2 / Hex2 ._uniform, MeshTri2 / Tet2 ._adaptive', True, 'translator + oracle'),
    ('MeshTri1 / Line1 / Tet1 ._adaptive and the _adaptive_* helpers', True, 'C13 translator + model + correspondence + oracle'),
    ('utils.adaptive_theta', True, 'C13 model + correspondence + oracle'),
    ('Mesh._uniform / Mesh._adaptive (base: MeshWedge1.refined, adaptive refinement of MeshQuad1/Quad2/Hex1/Hex2)', False,
     'api: must raise NotImplementedError (no partially refined object)'),
    ('MeshTri.init_tensor / init_symmetric / init_sqsymmetric / init_lshaped / init_refdom', False,
     'api: constructed, tagged with with_defaults(), refined uniformly (C12) and adaptively (C13) under the exact oracle'),
    ('MeshQuad.init_tensor / init_refdom, MeshLine.init_tensor / init_refdom (MeshLine(p)), MeshTet.init_tensor / init_refdom, '
     'MeshHex.init_tensor / init_refdom', False, 'api: same'),
    ('MeshTri.init_circle, MeshTet.init_ball, MeshTri2.init_circle, MeshTet2.init_ball (call refined() + smoothing internally)', False,
     'api: smoke only (valid mesh, cell counts 4^n / 8^n, refined once more): the projected coordinates are not dyadic, the exact '
     'oracle does not apply'),
    ('Mesh.with_defaults', False, 'api: default boundary names propagated through refinement (line / tri / quad), dropped with a '
     'warning for tet / hex'),
    ('Mesh.with_subdomains / with_boundaries with callables (boundaries_only=False)', False,
     'api: tags given as predicates, then refined, under the exact oracle'),
    ('Mesh.facets_around -> OrientedBoundary as a named boundary', False,
     'api: refined; the point set is preserved (orientation is not part of C12 and is not kept)'),
    ('Mesh.to_dict / from_dict, mirrored, __add__, remove_elements, restrict, MeshQuad1.to_meshtri (both styles), '
     'MeshHex1.to_meshtet, translated, scaled, oriented', False,
     'api: "after other operations": result refined under the exact oracle (translated/scaled/oriented were covered before)'),
    ('Mesh.__matmul__', True, 'oracle (shared point array with unused points)'),
    ('MeshLine1DG / MeshTri1DG / MeshQuad1DG / MeshHex1DG .refined (periodic meshes)', False,
     'api: refined() of a periodic mesh must raise or return a consistent mesh'),
    ('Mesh._splitref, Mesh.smoothed, Mesh.draw / plot, save / load', False,
     'out of scope: visualisation split (discontinuous by design), float smoothing, I/O (C17)'),
]


def _valid_smoke(ctx, label, f, ncells=None):
    try:
        m = f()
    except Exception as e:
        ctx.fail(f'api-constructor:{label}', f'{label} raised {type(e).__name__}: {e}', {'call': label})
        return None
    ctx.count(('api-smoke', label), nontrivial=False)
    if not m.is_valid() or (ncells is not None and m.t.shape[1] != ncells):
        ctx.fail(f'api-constructor:{label}', f'{label}: invalid mesh or {m.t.shape[1]} cells (expected {ncells})', {'call': label})
        return None
    return m


def base_meshes():
    """(kind, label, mesh) for every init_* constructor that yields dyadic coordinates"""
    import skfem as sk
    x, y, z = np.array([0., 1, 3]), np.array([0., 2, 3]), np.array([0., 1, 2])
    out = [('line', 'MeshLine.init_tensor', sk.MeshLine.init_tensor(np.array([0., 1, 3, 4]))),
           ('line', 'MeshLine.init_refdom', sk.MeshLine.init_refdom()),
           ('tri', 'MeshTri.init_tensor', sk.MeshTri.init_tensor(x, y)),
           ('tri', 'MeshTri.init_symmetric', sk.MeshTri.init_symmetric()),
           ('tri', 'MeshTri.init_sqsymmetric', sk.MeshTri.init_sqsymmetric()),
           ('tri', 'MeshTri.init_lshaped', sk.MeshTri.init_lshaped()),
           ('tri', 'MeshTri.init_refdom', sk.MeshTri.init_refdom()),
           ('quad', 'MeshQuad.init_tensor', sk.MeshQuad.init_tensor(x, y)),
           ('quad', 'MeshQuad.init_refdom', sk.MeshQuad.init_refdom()),
           ('tet', 'MeshTet.init_tensor', sk.MeshTet.init_tensor(x, np.array([0., 2]), z)),
           ('tet', 'MeshTet.init_refdom', sk.MeshTet.init_refdom()),
           ('hex', 'MeshHex.init_tensor', sk.MeshHex.init_tensor(x, np.array([0., 2]), z)),
           ('hex', 'MeshHex.init_refdom', sk.MeshHex.init_refdom())]
    return out


def other_operations(rng):
    """(kind, label, mesh): results of mesh operations, to be refined afterwards"""
    import skfem as sk
    x, y, z = np.array([0., 1, 3]), np.array([0., 2, 3]), np.array([0., 1, 2])
    q = sk.MeshQuad.init_tensor(x, y)
    t = sk.MeshTri.init_tensor(x, y)
    h = sk.MeshHex.init_tensor(x, np.array([0., 2]), z)
    tt = sk.MeshTet.init_tensor(x, np.array([0., 2]), z)
    ln = sk.MeshLine(np.array([0., 1, 3, 4]))
    out = [('quad', 'from_dict(to_dict())', sk.MeshQuad.from_dict(q.with_defaults().to_dict())),
           ('tri', 'from_dict(to_dict())', sk.MeshTri.from_dict(t.with_defaults().to_dict())),
           ('tri', 'mirrored', t.mirrored((1., 0.))),
           ('quad', 'mirrored', q.mirrored((0., 1.), (0., 3.))),
           ('tet', 'mirrored', tt.mirrored((0., 0., 1.))),
           ('line', '__add__', ln + ln.translated((4.,))),
           ('tri', '__add__', t + t.translated((3., 0.))),
           ('quad', '__add__', q + q.translated((3., 0.))),
           ('hex', '__add__', h + h.translated((3., 0., 0.))),
           ('tri', 'remove_elements', t.remove_elements(np.array([0, 3]))),
           ('quad', 'restrict', q.restrict(np.array([1, 2]))),
           ('tet', 'remove_elements', tt.remove_elements(np.array([0, 5, 7]))),
           ('tri', 'MeshQuad1.to_meshtri', q.to_meshtri()),
           ('tri', "MeshQuad1.to_meshtri(style='x')", q.to_meshtri(style='x')),
           ('tet', 'MeshHex1.to_meshtet', h.to_meshtet())]
    return out


def _tags_of(m):
    b = {k: np.asarray(v, dtype=np.int64) for k, v in (m.boundaries or {}).items()}
    s = {k: np.asarray(v, dtype=np.int64) for k, v in (m.subdomains or {}).items()}
    return s, b


def run_api_cases(ctx, which, check_one_step, check_adaptive, rng):
    """which = 'uniform' (C12) or 'adaptive' (C13)"""
    import skfem as sk
    cases = []
    for kind, label, m in base_meshes():
        mm = m.with_defaults() if m.p.shape[1] > 1 else m
        cases.append((kind, label + ' + with_defaults', mm))
    for kind, label, m in other_operations(rng):
        cases.append((kind, label, m))
    for kind, label, m in cases:
        ctx.hist('api', label)
        s, b = _tags_of(m)
        base = type(m)(m.p, m.t, **({'sort_t': m.sort_t} if kind == 'tri' else {}))
        nt = m.t.shape[1]
        if not s:
            s = {'a': gm.random_tags(rng, nt)}
        if not b:
            b = {'l': gm.random_tags(rng, m.facets.shape[1])}
        if which == 'uniform':
            r = check_one_step(ctx, kind, base, s, b, 'api:' + label)
            if r is not None and r.t.shape[1] * ex.NCHILD[kind] <= 600 and kind not in ('hex',):
                base2 = type(r)(r.p, r.t, **({'sort_t': r.sort_t} if kind == 'tri' else {}))
                check_one_step(ctx, kind, base2, {k: r.subdomains[k] for k in s} if r.subdomains else {},
                               {k: r.boundaries[k] for k in b} if r.boundaries else {}, 'api:' + label + '/step1')
        elif kind in ('line', 'tri', 'tet'):
            marked = gm.random_tags(rng, nt)
            check_adaptive(ctx, kind, base, marked, s, b, 'api:' + label, disjoint=(kind != 'tet' or nt <= 30))
    # tags given as predicates; an OrientedBoundary as a named boundary
    for kind, cls in (('tri', sk.MeshTri), ('quad', sk.MeshQuad), ('tet', sk.MeshTet), ('hex', sk.MeshHex), ('line', sk.MeshLine)):
        m = cls().refined(1)
        mt = m.with_subdomains({'a': lambda x: x[0] < 0.5}).with_boundaries({'b': lambda x: x[0] < 0.75}, boundaries_only=False)
        ob = m.facets_around(np.array([0]))
        mt = mt.with_boundaries({'o': ob})
        s, b = _tags_of(mt)
        ctx.hist('api', 'callable tags + OrientedBoundary')
        if which == 'uniform':
            check_one_step(ctx, kind, m, s, b, 'api:callable-tags')
        elif kind in ('line', 'tri', 'tet'):
            check_adaptive(ctx, kind, m, gm.random_tags(rng, m.t.shape[1]), s, b, 'api:callable-tags')
    if which == 'uniform':
        _call_forms(ctx)
        _curved_smoke(ctx)
    _unsupported(ctx, which)
    _dg(ctx, which)
    ctx.extra['api_coverage'] = [{'callable': c, 'covered_before': bool(b), 'now': n} for c, b, n in TABLE]


def _call_forms(ctx):
    import skfem as sk
    for cls in (sk.MeshLine, sk.MeshTri, sk.MeshQuad, sk.MeshTet, sk.MeshHex):
        m = cls()
        name = type(m).__name__
        ctx.count(('api-call-forms', name), nontrivial=False)
        try:
            a, b = m.refined(times_or_ix=2), m.refined(2)
            same = np.array_equal(a.p, b.p) and np.array_equal(a.t, b.t)
            z, n, tr = m.refined(0), m.refined(-1), m.refined(True)
            same = same and all(np.array_equal(x.t, m.t) and np.array_equal(x.p, m.p) for x in (z, n))
            same = same and np.array_equal(tr.t, m.refined(1).t)
        except Exception as e:
            ctx.fail(f'uniform-call-forms:{name}', f'{type(e).__name__}: {e}', {'class': name})
            continue
        if not same:
            ctx.fail(f'uniform-call-forms:{name}', 'refined(times_or_ix=2) / refined(0) / refined(-1) / refined(True) do not behave as '
                     '2 / 0 / 0 / 1 uniform refinements', {'class': name})


def _curved_smoke(ctx):
    import skfem as sk
    for label, f, n in (('MeshTri.init_circle(2)', lambda: sk.MeshTri.init_circle(2), 4 * 16), ('MeshTet.init_ball(1)', lambda: sk.MeshTet.init_ball(1), 8 * 8),
                        ('MeshTri2.init_circle(1)', lambda: sk.MeshTri2.init_circle(1), 16), ('MeshTet2.init_ball(1)', lambda: sk.MeshTet2.init_ball(1), 64)):
        m = _valid_smoke(ctx, label, f, n)
        if m is not None:
            _valid_smoke(ctx, label + '.refined()', lambda: m.refined(), m.t.shape[1] * (4 if m.p.shape[0] == 2 else 8))


def _unsupported(ctx, which):
    import skfem as sk
    forms = [('MeshWedge1.refined()', lambda: sk.MeshWedge1().refined())] if which == 'uniform' else \
        [('MeshQuad1.refined([0])', lambda: sk.MeshQuad().refined([0])), ('MeshHex1.refined([0])', lambda: sk.MeshHex().refined([0])),
         ('MeshQuad2.refined([0])', lambda: sk.MeshQuad2().refined([0])), ('MeshHex2.refined([0])', lambda: sk.MeshHex2().refined([0])),
         ('MeshWedge1.refined([0])', lambda: sk.MeshWedge1().refined([0]))]
    for label, f in forms:
        ctx.count(('api-unsupported', label), nontrivial=False)
        try:
            f()
        except NotImplementedError:
            continue
        except Exception as e:
            ctx.fail(f'unsupported-refinement:{label}', f'{label} raised {type(e).__name__} instead of NotImplementedError: {e}', {'call': label})
            continue
        ctx.fail(f'unsupported-refinement:{label}', f'{label} returned a mesh although the class has no such refinement', {'call': label})


def _dg(ctx, which):
    """periodic (DG) meshes: refined() must raise or give a mesh on which a basis can be built and whose measure is unchanged"""
    import skfem as sk
    from skfem.mesh import MeshTri1DG, MeshQuad1DG, MeshLine1DG
    cases = []
    m = sk.MeshTri().refined(1)
    cases.append(('MeshTri1DG', MeshTri1DG, m, sk.ElementTriP0()))
    q = sk.MeshQuad().refined(1)
    cases.append(('MeshQuad1DG', MeshQuad1DG, q, sk.ElementQuad0()))
    for name, cls, m0, elem in cases:
        if which == 'adaptive' and name != 'MeshTri1DG':
            continue
        try:
            mp = cls.periodic(m0, m0.nodes_satisfying(lambda x: x[0] == 0), m0.nodes_satisfying(lambda x: x[0] == 1))
        except Exception as e:
            ctx.fail(f'api-constructor:{name}.periodic', f'{type(e).__name__}: {e}', {'class': name})
            continue
        ctx.count(('api-dg', name, which), nontrivial=False)
        data = {'call': f"{name}.periodic({type(m0).__name__}().refined(1), nodes x==0, nodes x==1)"
                        + ('.refined()' if which == 'uniform' else '.refined([0])')}

        def meas(M):
            return float(sk.Functional(lambda w: 1. + 0 * w.x[0]).assemble(sk.Basis(M, elem)))
        try:
            r = mp.refined() if which == 'uniform' else mp.refined(np.array([0]))
        except NotImplementedError:
            continue
        except Exception as e:
            ctx.fail(f'{which}-dg-mesh:{name}', f'refinement of a periodic mesh raised {type(e).__name__}: {e}', data)
            continue
        try:
            a0, a1 = meas(mp), meas(r)
            ok = abs(a0 - a1) < 1e-12 and r.doflocs.shape[1] == r.t.shape[0] * r.t.shape[1]
            msg = f'measure {a1} after refinement, {a0} before; doflocs {r.doflocs.shape}, t {r.t.shape}'
        except Exception as e:
            ok, msg = False, f'the refined periodic mesh is unusable: Basis(...) raised {type(e).__name__}: {e}'
        if not ok:
            ctx.fail(f'{which}-dg-mesh:{name}', 'refinement of a periodic (DG) mesh returns an inconsistent mesh without any error: ' + msg, data)
