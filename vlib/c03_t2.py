"""T2 / T1 ties of C03 (and the Piola / pull-back einsums shared with C09): fail-closed ``ast`` translation of

* ``ElementHcurl.orient``  (element_hcurl.py):  ``ori = 1 - 2 * (mapping.mesh.t[t1] > mapping.mesh.t[t2])`` and where t1, t2 come from
* ``ElementHdiv.orient``   (element_hdiv.py):   ``ori = -1 + 2 * (mapping.mesh.f2t[0, mapping.mesh.t2f[ix]] == np.arange(nt))``
* ``Mesh.__post_init__``   (mesh.py): first statement ``if self.sort_t: self.t = np.sort(self.t, axis=0)``; the class
  attributes ``sort_t`` of Mesh / MeshTri1 / MeshTri2 / MeshQuad1 / MeshTet1 / MeshHex1
* the einsum subscripts of ElementH1 / ElementHdiv / ElementHcurl ``gbasis`` (value, grad, div, curl)
* the refdom facet / edge tables (exact evaluation of the class attributes)
"""
import ast

from . import t2
from .core import TranslateError


class ExprZ(t2.Expr):
    """integer expressions with one comparison level: (a > b), (a == b) become b2z (a >? b), b2z (a =? b)"""

    def __init__(self, env, special):
        super().__init__(env, 'Z')
        self.special = special          # source text -> Coq identifier (whole sub-expressions named by the model)

    def tr(self, n):
        s = t2.src(n)
        if s in self.special:
            return self.special[s]
        if isinstance(n, ast.Compare):
            if len(n.ops) != 1:
                raise TranslateError('chained comparison: ' + s)
            op = {ast.Gt: '>?', ast.Lt: '<?', ast.Eq: '=?'}.get(type(n.ops[0]))
            if op is None:
                raise TranslateError('comparison operator in ' + s)
            return f'(b2z ({self.tr(n.left)} {op} {self.tr(n.comparators[0])}))'
        if isinstance(n, ast.UnaryOp) and isinstance(n.op, ast.USub) and isinstance(n.operand, ast.Constant):
            return f'(- {self.lit(n.operand.value)})'
        return super().tr(n)


class ExprQ(t2.Expr):
    """field expressions over Q with named sub-expressions; float literals only when integral"""

    def __init__(self, special):
        super().__init__({}, 'field')
        self.special = special

    def tr(self, n):
        s = t2.src(n)
        if s in self.special:
            return self.special[s]
        if isinstance(n, ast.Constant) and isinstance(n.value, float) and n.value == int(n.value):
            return self.lit(int(n.value))
        return super().tr(n)


def _assign(fn, target):
    hits = [s for s in ast.walk(fn) if isinstance(s, ast.Assign) and len(s.targets) == 1 and t2.src(s.targets[0]) == target]
    return hits


def hcurl_orient():
    tree = t2.parse('skfem/element/element_hcurl.py')
    fn = t2.find_def(tree, 'orient', 'ElementHcurl')
    ori = [s for s in _assign(fn, 'ori') if 'mapping.mesh.t[' in t2.src(s.value)]
    a = t2.only(ori, 'ori = ... mesh.t[t1] ... in ElementHcurl.orient')
    ex = ExprZ({}, {'mapping.mesh.t[t1]': 'a', 'mapping.mesh.t[t2]': 'b'})
    body = ex.tr(a.value)
    # t1, t2 = mapping.mesh.refdom.edges[ix]  (3-D)  /  .facets[ix]  (2-D), under the dim() tests
    src3 = [t2.src(s) for s in ast.walk(fn) if isinstance(s, ast.Assign) and t2.src(s.targets[0]) in ('(t1, t2)', 't1, t2')]
    src3 = [x.replace('(t1, t2) =', 't1, t2 =') for x in src3]
    if sorted(src3) != sorted(['t1, t2 = mapping.mesh.refdom.edges[ix]', 't1, t2 = mapping.mesh.refdom.facets[ix]']):
        raise TranslateError('ElementHcurl.orient: source of (t1, t2): ' + repr(src3))
    ret = [t2.src(s) for s in ast.walk(fn) if isinstance(s, ast.Return)]
    if sorted(ret) != ['return ori[tind]', 'return ori[tind]']:
        raise TranslateError('ElementHcurl.orient: returns ' + repr(ret))
    ix = t2.only(_assign(fn, 'ix'), 'ix = ...')
    if t2.src(ix.value) != 'int(i / divide_by)':
        raise TranslateError('ElementHcurl.orient: ix = ' + t2.src(ix.value))
    guards = [t2.src(s.test) for s in fn.body if isinstance(s, ast.If)]
    want = ['tind is None', 'mapping.mesh.dim() == 2 and ix >= self.refdom.nfacets', 'mapping.mesh.dim() == 3']
    if guards != want:
        raise TranslateError('ElementHcurl.orient: guards ' + repr(guards))
    return f'Definition gen_hcurl_ori (a b : Z) : Z := {body}%Z.'


def hdiv_orient():
    tree = t2.parse('skfem/element/element_hdiv.py')
    fn = t2.find_def(tree, 'orient', 'ElementHdiv')
    ori = t2.only(_assign(fn, 'ori'), 'ori = ... in ElementHdiv.orient')
    ex = ExprZ({}, {'mapping.mesh.f2t[0, mapping.mesh.t2f[ix]]': 'first', 'np.arange(mapping.mesh.t.shape[1])': 'cell'})
    body = ex.tr(ori.value)
    ix = t2.only(_assign(fn, 'ix'), 'ix = ...')
    if t2.src(ix.value) != 'int(i / self.facet_dofs)':
        raise TranslateError('ElementHdiv.orient: ix = ' + t2.src(ix.value))
    ifs = [s for s in fn.body if isinstance(s, ast.If) and t2.src(s.test) == 'ix >= self.refdom.nfacets']
    t2.only(ifs, 'interior-dof branch of ElementHdiv.orient')
    ret = [t2.src(s) for s in ast.walk(fn) if isinstance(s, ast.Return)]
    ret = sorted(ret)
    if len(ret) != 2 or ret[1] != 'return ori[tind]' or not ret[0].startswith('return np.ones('):
        raise TranslateError('ElementHdiv.orient: returns ' + repr(ret))
    return f'Definition gen_hdiv_ori (first cell : Z) : Z := {body}%Z.'


def sort_flags():
    """class attribute sort_t of the mesh classes and the sorting statement of Mesh.__post_init__"""
    out = {}
    for rel, cls in (('skfem/mesh/mesh.py', 'Mesh'), ('skfem/mesh/mesh_tri_1.py', 'MeshTri1'), ('skfem/mesh/mesh_tri_2.py', 'MeshTri2'),
                     ('skfem/mesh/mesh_quad_1.py', 'MeshQuad1'), ('skfem/mesh/mesh_tet_1.py', 'MeshTet1'),
                     ('skfem/mesh/mesh_hex_1.py', 'MeshHex1')):
        tree = t2.parse(rel)
        cl = t2.only([n for n in ast.walk(tree) if isinstance(n, ast.ClassDef) and n.name == cls], f'class {cls}')
        val = None
        for s in cl.body:
            if isinstance(s, ast.AnnAssign) and t2.src(s.target) == 'sort_t':
                if not (isinstance(s.value, ast.Constant) and isinstance(s.value.value, bool)):
                    raise TranslateError(f'{cls}.sort_t = {t2.src(s.value)}')
                val = s.value.value
        out[cls] = val          # None: inherited
    if out['Mesh'] is None:
        raise TranslateError('Mesh.sort_t has no default')
    tree = t2.parse('skfem/mesh/mesh.py')
    fn = t2.find_def(tree, '__post_init__', 'Mesh')
    body = [s for s in fn.body if not (isinstance(s, ast.Expr) and isinstance(s.value, ast.Constant))]
    first = body[0]
    if t2.src(first) != 'if self.sort_t:\n    self.t = np.sort(self.t, axis=0)':
        raise TranslateError('Mesh.__post_init__ does not start with the per-cell sort: ' + t2.src(first)[:120])
    # nothing later may overwrite self.t before connectivity is used, except the high-order reindexing which keeps
    # the row order (self.t = arange[ix].reshape(t_nodes.shape)) and the contiguity copies
    later = [t2.src(s.value) for s in ast.walk(fn) if isinstance(s, ast.Assign) and t2.src(s.targets[0]) == 'self.t'
             and s is not first.body[0]]
    allowed = {"np.asarray(self.t, dtype=np.int32, order='K')", 'np.arange(len(uniq), dtype=np.int32)[ix].reshape(t_nodes.shape)',
               'np.ascontiguousarray(self.t)'}
    if not set(later) <= allowed:
        raise TranslateError('Mesh.__post_init__ reassigns self.t: ' + repr(sorted(set(later) - allowed)))
    # inheritance: MeshTri2(Mesh2D2, MeshTri1), MeshQuad1/MeshTet1/MeshHex1 inherit Mesh's default
    eff = {c: (v if v is not None else out['Mesh']) for c, v in out.items()}
    return eff


def einsum_sites():
    """(class, field, rank of X) -> (subscripts, operand sources) for the gbasis methods of H1 / Hdiv / Hcurl"""
    sites = {}
    for rel, cls in (('skfem/element/element_h1.py', 'ElementH1'), ('skfem/element/element_hdiv.py', 'ElementHdiv'),
                     ('skfem/element/element_hcurl.py', 'ElementHcurl'), ('skfem/element/element_matrix.py', 'ElementMatrix')):
        tree = t2.parse(rel)
        fn = t2.find_def(tree, 'gbasis', cls)
        for call in [c for c in ast.walk(fn) if isinstance(c, ast.Call) and t2.src(c.func) == 'DiscreteField']:
            for kw in call.keywords:
                v = kw.value
                if isinstance(v, ast.Call) and t2.src(v.func) == 'np.einsum':
                    sub = v.args[0]
                    if not (isinstance(sub, ast.Constant) and isinstance(sub.value, str)):
                        raise TranslateError(f'{cls}.gbasis: einsum subscripts not a literal')
                    sites.setdefault((cls, kw.arg), []).append((sub.value, [t2.src(a) for a in v.args[1:]]))
                elif isinstance(v, ast.Call) and t2.src(v.func) == 'np.broadcast_to':
                    sites.setdefault((cls, kw.arg), []).append(('broadcast', [t2.src(a) for a in v.args]))
                else:
                    sites.setdefault((cls, kw.arg), []).append(('expr', [t2.src(v)]))
    return sites


def einsum_to_coq(name, subs, d, args):
    """``'ijkl,jl,kl->ikl'`` (k = cell, l = point: pointwise, dropped) -> Coq definition over Q of the output
    component(s) as explicit sums for dimension d.  Operands become function arguments of the right arity."""
    ins, out = subs.split('->')
    ins = ins.split(',')
    if len(ins) != len(args):
        raise TranslateError(f'{name}: {len(ins)} subscript groups for {len(args)} operands')
    drop = set('kl')
    free = [c for c in out if c not in drop]
    summed = sorted({c for g in ins for c in g if c not in drop and c not in free})
    params = []
    for g, a in zip(ins, args):
        idx = [c for c in g if c not in drop]
        ty = ' -> '.join(['nat'] * len(idx) + ['Q'])
        params.append(f'({a} : {ty})')
    import itertools
    terms = []
    for combo in itertools.product(range(d), repeat=len(summed)):
        env = dict(zip(summed, combo))
        factors = []
        for g, a in zip(ins, args):
            idx = [c for c in g if c not in drop]
            factors.append('(' + ' '.join([a] + [str(env[c]) + '%nat' if c in env else c for c in idx]) + ')')
        terms.append(' * '.join(factors))
    fre = ' '.join(f'({c} : nat)' for c in free)
    return f'Definition {name} {" ".join(params)} {fre} : Q :=\n  ({" + ".join(terms)})%Q.'


def generate_c09():
    """Gen/C09_T2.v: the mapped-derivative formulas of the three gbasis methods, as Coq definitions over Q"""
    sites = einsum_sites()

    def chk(key, want):
        got = sites.get(key)
        if sorted(got or []) != sorted(want):
            raise TranslateError(f'{key[0]}.gbasis {key[1]}: {got!r}')
    chk(('ElementH1', 'grad'), [('ijkl,il->jkl', ['invDF', 'dphi']), ('ijkl,ikl->jkl', ['invDF', 'dphi'])])
    hval = sites.get(('ElementH1', 'value')) or []
    if [s for s, _ in hval] != ['broadcast', 'broadcast'] or any(a[0] != 'phi' for _, a in hval):
        raise TranslateError('ElementH1.gbasis value: ' + repr(hval))
    scale = '1.0 / np.abs(detDF) * orient[:, None]'
    divx = 'dphi / (np.abs(detDF) * orient[:, None])'
    # ElementHdiv: recorded, not raised — the tie lemma tie_hdiv_sites (dyn/C09Pull.v) states that the value is the einsum of
    # DF, phi and a scale that carries BOTH the cell index k and the point index l (det DF taken at the same point as DF
    # and phi) with exactly the scale / div expressions the theorems are about
    hv = sorted(sites.get(('ElementHdiv', 'value')) or [])
    hd_ = sorted(sites.get(('ElementHdiv', 'div')) or [])
    hdiv_expected = (hv == sorted([('ijkl,jl,kl->ikl', ['DF', 'phi', scale]), ('ijkl,jkl,kl->ikl', ['DF', 'phi', scale])])
                     and hd_ == [('expr', [divx])] * 2)
    hdiv_pointwise = bool(hv) and all(sub != 'expr' and sub != 'broadcast' and sub.split('->')[0].split(',')[-1] == 'kl'
                                      for sub, _ in hv)
    if not hv or not hd_:
        raise TranslateError('ElementHdiv.gbasis: value / div not found')
    chk(('ElementHcurl', 'value'), [('ijkl,il,k->jkl', ['invDF', 'phi', 'orient']), ('ijkl,ikl,k->jkl', ['invDF', 'phi', 'orient'])] * 2)
    cscale = '1.0 / detDF * orient[:, None]'
    curl2 = 'dphi / detDF * orient[:, None]'
    chk(('ElementHcurl', 'curl'), [('ijkl,jl,kl->ikl', ['DF', 'dphi', cscale]), ('ijkl,jkl,kl->ikl', ['DF', 'dphi', cscale]),
                                   ('expr', [curl2]), ('expr', [curl2])])
    ex = ExprQ({'np.abs(detDF)': 'absdet', 'orient[:, None]': 'orient', 'detDF': 'detDF', 'dphi': 'dphi'})
    parts = ['(* GENERATED by vlib/c03_t2.py from element_h1.py, element_hdiv.py, element_hcurl.py (gbasis) — do not edit *)',
             'From Coq Require Import List Arith ZArith QArith Bool.', 'Import ListNotations.', '']
    for d in (1, 2, 3):
        parts.append(einsum_to_coq(f'gen_h1_grad{d}', 'ijkl,il->jkl', d, ['invDF', 'dphi']))
    for d in (2, 3):
        parts.append(einsum_to_coq(f'gen_hdiv_value{d}', 'ijkl,jl,kl->ikl', d, ['DF', 'phi', 'c']))
        parts.append(einsum_to_coq(f'gen_hcurl_value{d}', 'ijkl,il,k->jkl', d, ['invDF', 'phi', 'orient']).replace('(orient)', 'orient'))
    parts.append(einsum_to_coq('gen_hcurl_curl3', 'ijkl,jl,kl->ikl', 3, ['DF', 'dphi', 'c']))
    mscale = '1 / np.abs(detDF) ** 2'
    chk(('ElementMatrix', 'value'), [('ijkl,jal,bakl,kl->ibkl', ['DF', 'phi', 'DF', mscale]),
                                     ('ijkl,jakl,bakl,kl->ibkl', ['DF', 'phi', 'DF', mscale])])
    parts.append(einsum_to_coq('gen_matrix_value2', 'ijkl,jal,bakl,kl->ibkl', 2, ['DF', 'phi', 'DF2', 'c']))
    parts.append(f'Definition gen_matrix_scale (absdet : Q) : Q := {ex.tr(ast.parse(mscale, mode="eval").body)}%Q.')
    parts.append(f'Definition gen_hdiv_scale_pointwise : bool := {"true" if hdiv_pointwise else "false"}.   (* scale operand indexed by cell AND point *)')
    parts.append(f'Definition gen_hdiv_sites_as_expected : bool := {"true" if hdiv_expected else "false"}.')
    parts.append(f'Definition gen_hdiv_scale (absdet orient : Q) : Q := {ex.tr(ast.parse(scale, mode="eval").body)}%Q.')
    parts.append(f'Definition gen_hdiv_div (dphi absdet orient : Q) : Q := {ex.tr(ast.parse(divx, mode="eval").body)}%Q.')
    parts.append(f'Definition gen_hcurl_scale (detDF orient : Q) : Q := {ex.tr(ast.parse(cscale, mode="eval").body)}%Q.')
    parts.append(f'Definition gen_hcurl_curl2 (dphi detDF orient : Q) : Q := {ex.tr(ast.parse(curl2, mode="eval").body)}%Q.')
    return '\n'.join(parts) + '\n', {'einsum_sites': {f'{k[0]}.{k[1]}': v for k, v in sites.items()}}


def refdom_tables():
    import skfem.refdom as R
    out = {}
    for nm in ('RefTri', 'RefTet', 'RefQuad', 'RefHex', 'RefLine'):
        rd = getattr(R, nm)
        out[nm] = {'nnodes': int(rd.nnodes), 'facets': [list(map(int, f)) for f in (rd.facets or [])],
                   'edges': [list(map(int, f)) for f in (getattr(rd, 'edges', None) or [])]}
    return out


def cnatss(t):
    return '[' + '; '.join('[' + '; '.join(f'{i}%nat' for i in f) + ']' for f in t) + ']'


def generate():
    """text of Gen/C03_Gen.v and an info dict"""
    flags = sort_flags()
    tabs = refdom_tables()
    sites = einsum_sites()
    info = {'sort_t': flags, 'einsum_sites': {f'{k[0]}.{k[1]}': v for k, v in sites.items()}}

    def site(cls, field, rank):
        lst = sites.get((cls, field))
        if not lst or len(lst) != 2 + (2 if cls == 'ElementHcurl' else 0):
            raise TranslateError(f'{cls}.gbasis: field {field}: expected one expression per point layout, found {lst}')
        return lst
    hv = site('ElementHdiv', 'value', 2)
    want_v = [('ijkl,jl,kl->ikl', ['DF', 'phi', '1.0 / np.abs(detDF) * orient[:, None]']),
              ('ijkl,jkl,kl->ikl', ['DF', 'phi', '1.0 / np.abs(detDF) * orient[:, None]'])]
    if sorted(hv) != sorted(want_v):
        raise TranslateError('ElementHdiv.gbasis value: ' + repr(hv))
    hd = site('ElementHdiv', 'div', 2)
    if hd != [('expr', ['dphi / (np.abs(detDF) * orient[:, None])'])] * 2:
        raise TranslateError('ElementHdiv.gbasis div: ' + repr(hd))
    hg = site('ElementH1', 'grad', 2)
    if sorted(hg) != sorted([('ijkl,il->jkl', ['invDF', 'dphi']), ('ijkl,ikl->jkl', ['invDF', 'dphi'])]):
        raise TranslateError('ElementH1.gbasis grad: ' + repr(hg))
    hval = site('ElementH1', 'value', 2)
    if [s for s, _ in hval] != ['broadcast', 'broadcast'] or any(a[0] != 'phi' for _, a in hval):
        raise TranslateError('ElementH1.gbasis value: ' + repr(hval))
    cv = sites.get(('ElementHcurl', 'value'))
    if sorted(cv or []) != sorted([('ijkl,il,k->jkl', ['invDF', 'phi', 'orient']), ('ijkl,ikl,k->jkl', ['invDF', 'phi', 'orient'])] * 2):
        raise TranslateError('ElementHcurl.gbasis value: ' + repr(cv))
    cc = sites.get(('ElementHcurl', 'curl'))
    want_c = [('ijkl,jl,kl->ikl', ['DF', 'dphi', '1.0 / detDF * orient[:, None]']),
              ('ijkl,jkl,kl->ikl', ['DF', 'dphi', '1.0 / detDF * orient[:, None]']),
              ('expr', ['dphi / detDF * orient[:, None]']), ('expr', ['dphi / detDF * orient[:, None]'])]
    if sorted(cc or []) != sorted(want_c):
        raise TranslateError('ElementHcurl.gbasis curl: ' + repr(cc))
    parts = ['(* GENERATED by vlib/c03_t2.py from element_hcurl.py, element_hdiv.py, element_h1.py, mesh.py, mesh_*_1.py, refdom.py — do not edit *)',
             'From Coq Require Import List Arith ZArith QArith Bool.', 'Import ListNotations.',
             'Require Import Model.C03_Orient.', '', hcurl_orient(), hdiv_orient(), '']
    for cls, v in flags.items():
        parts.append(f'Definition gen_sort_t_{cls} : bool := {"true" if v else "false"}.')
    parts.append('(* Mesh.__post_init__: if self.sort_t: self.t = np.sort(self.t, axis=0)   (one column of t) *)')
    parts.append('Definition gen_post_init_column (sort_t : bool) (col : list nat) : list nat := if sort_t then sort_col col else col.')
    for nm, tb in tabs.items():
        parts.append(f'Definition gen_{nm}_nnodes : nat := {tb["nnodes"]}%nat.')
        parts.append(f'Definition gen_{nm}_facets : list (list nat) := {cnatss(tb["facets"])}.')
        parts.append(f'Definition gen_{nm}_edges : list (list nat) := {cnatss(tb["edges"])}.')
    # einsums (shared points layout and per-element points layout give the same contraction over i/j)
    for d in (2, 3):
        parts.append(einsum_to_coq(f'gen_hdiv_value{d}', 'ijkl,jl,kl->ikl', d, ['DF', 'phi', 'c']))
        parts.append(einsum_to_coq(f'gen_h1_grad{d}', 'ijkl,il->jkl', d, ['invDF', 'dphi']))
        parts.append(einsum_to_coq(f'gen_hcurl_value{d}', 'ijkl,il,k->jkl', d, ['invDF', 'phi', 'orient']).replace('(orient)', 'orient'))
    parts.append(einsum_to_coq('gen_hcurl_curl3', 'ijkl,jl,kl->ikl', 3, ['DF', 'dphi', 'c']))
    return '\n'.join(parts) + '\n', info
