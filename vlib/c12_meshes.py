"""C12/C13: generators of small random straight-sided meshes with INTEGER coordinates (so that every
midpoint the library computes is an exact dyadic number) and arbitrary vertex / cell numbering."""
import itertools

import numpy as np

S = 8  # grid spacing; vertices are perturbed by at most 1 per coordinate (cells stay non-degenerate)

KINDS = ('line', 'tri', 'quad', 'tet', 'hex')
DIM = {'line': 1, 'tri': 2, 'quad': 2, 'tet': 3, 'hex': 3}


def skfem_cls(kind, order=1):
    import skfem
    return {('line', 1): skfem.MeshLine1, ('tri', 1): skfem.MeshTri1, ('quad', 1): skfem.MeshQuad1,
            ('tet', 1): skfem.MeshTet1, ('hex', 1): skfem.MeshHex1, ('tri', 2): skfem.MeshTri2,
            ('quad', 2): skfem.MeshQuad2, ('tet', 2): skfem.MeshTet2, ('hex', 2): skfem.MeshHex2}[(kind, order)]


def build(kind, p, t, sort_t=None):
    """a first-order skfem mesh from integer arrays"""
    cls = skfem_cls(kind)
    kw = {}
    if sort_t is not None:
        kw['sort_t'] = sort_t
    return cls(np.array(p, dtype=np.float64), np.array(t, dtype=np.int32), **kw)


# ----------------------------------------------------------------------------- helpers

def _compress(p, t, rng, renumber=True):
    """drop unused vertices, randomly renumber vertices and shuffle cells"""
    used = np.unique(t)
    new = -np.ones(p.shape[1], dtype=np.int64)
    perm = rng.permutation(len(used)) if renumber else np.arange(len(used))
    new[used] = perm
    p2 = np.zeros((p.shape[0], len(used)), dtype=np.int64)
    p2[:, perm] = p[:, used]
    t2 = new[t]
    if renumber:
        t2 = t2[:, rng.permutation(t2.shape[1])]
    return p2, t2


def _remove_cells(t, rng, keep_min=1):
    nt = t.shape[1]
    if nt <= keep_min or rng.random() < 0.5:
        return t
    nrem = int(rng.integers(1, max(2, nt // 3 + 1)))
    keep = np.sort(rng.choice(nt, size=max(keep_min, nt - nrem), replace=False))
    return t[:, keep]


def _perturb(p, rng, amount=1):
    return p + rng.integers(-amount, amount + 1, size=p.shape)


_HEX_AUT = None


def hex_automorphisms():
    """vertex permutations of the reference hexahedron that map edges to edges (48), split by orientation"""
    global _HEX_AUT
    if _HEX_AUT is None:
        from skfem.refdom import RefHex
        rp = RefHex.p.T.astype(int)
        edges = {frozenset(e) for e in RefHex.edges}
        pos, neg = [], []
        for perm in itertools.permutations(range(8)):
            if all(frozenset((perm[a], perm[b])) in edges for a, b in RefHex.edges):
                # orientation: the affine map sending rp[i] -> rp[perm[i]]
                o = rp[perm[7]]  # image of the origin vertex (rp[7] = 0)
                # vertices 6, 5, 4 are e_z, e_y, e_x resp. (rp rows)
                basis = {tuple(rp[i]): i for i in range(8)}
                ex, ey, ez = basis[(1, 0, 0)], basis[(0, 1, 0)], basis[(0, 0, 1)]
                M = np.array([rp[perm[ex]] - o, rp[perm[ey]] - o, rp[perm[ez]] - o])
                (pos if round(np.linalg.det(M)) > 0 else neg).append(perm)
        _HEX_AUT = (pos, neg)
    return _HEX_AUT


# ----------------------------------------------------------------------------- generators

def gen_line(rng, nmax=6):
    n = int(rng.integers(1, nmax + 1))
    xs = np.sort(rng.choice(np.arange(-12, 13), size=n + 1, replace=False))
    cells = [(i, i + 1) for i in range(n)]
    if n >= 3 and rng.random() < 0.3:          # two components
        cells.pop(int(rng.integers(1, n - 1)))
    t = np.array([c if rng.random() < 0.5 else c[::-1] for c in cells], dtype=np.int64).T
    p = xs[None, :].astype(np.int64)
    p, t = _compress(p, t, rng)
    return {'kind': 'line', 'p': p, 't': t}


def _grid2(nx, ny):
    ids = np.arange((nx + 1) * (ny + 1)).reshape(nx + 1, ny + 1)
    p = np.array([[S * i, S * j] for i in range(nx + 1) for j in range(ny + 1)], dtype=np.int64).T
    return ids, p


def gen_tri(rng, nmax=10, delaunay=None):
    if delaunay is None:
        delaunay = rng.random() < 0.35
    if delaunay:
        m = _delaunay(rng, 2, int(rng.integers(4, 9)))
        if m is not None:
            p, t = m
            p, t = _compress(p, _remove_cells(t, rng), rng)
            return _tri_finish(p, t, rng)
    nx, ny = int(rng.integers(1, 4)), int(rng.integers(1, 3))
    ids, p = _grid2(nx, ny)
    cells = []
    for i in range(nx):
        for j in range(ny):
            a, b, c, d = ids[i, j], ids[i + 1, j], ids[i + 1, j + 1], ids[i, j + 1]
            if rng.random() < 0.5:
                cells += [(a, b, c), (a, c, d)]
            else:
                cells += [(a, b, d), (b, c, d)]
    t = np.array(cells, dtype=np.int64).T
    if t.shape[1] > nmax:
        t = t[:, np.sort(rng.choice(t.shape[1], size=nmax, replace=False))]
    p = _perturb(p, rng)
    p, t = _compress(p, _remove_cells(t, rng), rng)
    return _tri_finish(p, t, rng)


def _tri_finish(p, t, rng):
    sort_t = bool(rng.random() < 0.5)
    if not sort_t:     # arbitrary local vertex order (both orientations)
        t = np.array([rng.permutation(t[:, k]) for k in range(t.shape[1])]).T
    return {'kind': 'tri', 'p': p, 't': t, 'sort_t': sort_t}


def gen_quad(rng, nmax=9):
    nx, ny = int(rng.integers(1, 4)), int(rng.integers(1, 4))
    ids, p = _grid2(nx, ny)
    cells = []
    for i in range(nx):
        for j in range(ny):
            c = [ids[i, j], ids[i + 1, j], ids[i + 1, j + 1], ids[i, j + 1]]
            r = int(rng.integers(0, 4))
            c = c[r:] + c[:r]
            if rng.random() < 0.2:
                c = [c[0], c[3], c[2], c[1]]      # clockwise
            cells.append(c)
    t = np.array(cells, dtype=np.int64).T
    p = _perturb(p, rng)
    if rng.random() < 0.3:                       # shear / anisotropy (integer affine map)
        A = np.array([[1, int(rng.integers(-1, 2))], [int(rng.integers(-1, 2)), 2]])
        if round(np.linalg.det(A)) != 0:
            p = A @ p
    p, t = _compress(p, _remove_cells(t, rng), rng)
    return {'kind': 'quad', 'p': p, 't': t}


def _grid3(nx, ny, nz):
    ids = np.arange((nx + 1) * (ny + 1) * (nz + 1)).reshape(nx + 1, ny + 1, nz + 1)
    p = np.array([[S * i, S * j, S * k] for i in range(nx + 1) for j in range(ny + 1) for k in range(nz + 1)],
                 dtype=np.int64).T
    return ids, p


def gen_tet(rng, nmax=12, delaunay=None):
    if delaunay is None:
        delaunay = rng.random() < 0.3
    if delaunay:
        m = _delaunay(rng, 3, int(rng.integers(5, 8)))
        if m is not None:
            p, t = m
            if t.shape[1] > nmax:
                t = t[:, :nmax]
            p, t = _compress(p, _remove_cells(t, rng), rng)
            return _tet_finish(p, t, rng)
    nx, ny, nz = [int(v) for v in rng.permutation([1, 1, int(rng.integers(1, 3))])]
    ids, p = _grid3(nx, ny, nz)
    cells = []
    for i in range(nx):
        for j in range(ny):
            for k in range(nz):
                for perm in itertools.permutations(range(3)):
                    cur = [i, j, k]
                    path = [ids[tuple(cur)]]
                    for ax in perm:
                        cur[ax] += 1
                        path.append(ids[tuple(cur)])
                    cells.append(path)
    t = np.array(cells, dtype=np.int64).T
    p = _perturb(p, rng)
    if rng.random() < 0.5:                        # make the x-y projection less special
        A = np.array([[1, 0, int(rng.integers(-1, 2))], [int(rng.integers(-1, 2)), 1, 0], [0, 0, 1]])
        p = A @ p
    p, t = _compress(p, _remove_cells(t, rng, keep_min=1), rng)
    if t.shape[1] > nmax:
        p, t = _compress(p, t[:, :nmax], rng)
    return _tet_finish(p, t, rng)


def _tet_finish(p, t, rng):
    t = np.array([rng.permutation(t[:, k]) for k in range(t.shape[1])]).T
    return {'kind': 'tet', 'p': p, 't': t}


def gen_hex(rng, nmax=6, general=None):
    from skfem.refdom import RefHex
    rp = RefHex.p.T.astype(int)
    nx, ny, nz = [int(v) for v in rng.permutation([1, int(rng.integers(1, 3)), int(rng.integers(1, 3))])]
    ids, p = _grid3(nx, ny, nz)
    pos, neg = hex_automorphisms()
    cells = []
    for i in range(nx):
        for j in range(ny):
            for k in range(nz):
                c = [ids[i + rp[v][0], j + rp[v][1], k + rp[v][2]] for v in range(8)]
                a = pos[int(rng.integers(0, len(pos)))]
                cells.append([c[a[v]] for v in range(8)])
    t = np.array(cells, dtype=np.int64).T
    if general is None:
        general = rng.random() < 0.4
    if general:
        p = _perturb(p, rng)                       # trilinear cells with non-planar faces
    A = np.array([[1, int(rng.integers(-1, 2)), 0], [0, 1, int(rng.integers(-1, 2))], [int(rng.integers(0, 2)), 0, 1]])
    if round(np.linalg.det(A)) != 0 and rng.random() < 0.6:
        p = A @ p                                  # parallelepipeds
    t = _remove_cells(t, rng)
    if t.shape[1] > nmax:
        t = t[:, :nmax]
    p, t = _compress(p, t, rng)
    return {'kind': 'hex', 'p': p, 't': t, 'general': bool(general)}


def _delaunay(rng, dim, npts):
    """Delaunay triangulation of random integer points; None unless it passes exact sanity checks
    (no degenerate cell, every facet in <= 2 cells, boundary facets are supporting hyperplanes of the
    point set, no unused point).  Validity of the input mesh is re-checked by the oracle anyway."""
    from scipy.spatial import Delaunay
    from . import c12_exact as ex
    pts = rng.integers(-9, 10, size=(npts, dim))
    pts = np.unique(pts, axis=0)
    if len(pts) < dim + 2:
        return None
    try:
        tri = Delaunay(pts.astype(float))
    except Exception:
        return None
    t = tri.simplices.T.astype(np.int64)
    p = pts.T.astype(np.int64)
    kind = 'tri' if dim == 2 else 'tet'
    if len(np.unique(t)) != p.shape[1]:
        return None
    if ex.input_problems(kind, p, t, convex_hull=True):
        return None
    return p, t


GEN = {'line': gen_line, 'tri': gen_tri, 'quad': gen_quad, 'tet': gen_tet, 'hex': gen_hex}


def random_tags(rng, n, interior_ok=True):
    """a random subset of range(n) (sometimes empty, sometimes everything)"""
    r = rng.random()
    if r < 0.08:
        return np.array([], dtype=np.int64)
    if r < 0.16:
        return np.arange(n, dtype=np.int64)
    k = int(rng.integers(1, max(2, n // 2 + 1)))
    return np.sort(rng.choice(n, size=min(k, n), replace=False)).astype(np.int64)


def with_unused_points(kind, m, rng, how=None):
    """the same cells over a point array with points that belong to no cell: appended directly (trailing), or the first
    mesh of `m @ far_copy` (the library's own way of making one: all meshes of the list share the joint point array)"""
    if how is None:
        how = 'direct' if rng.random() < 0.5 else 'matmul'
    d = m.p.shape[0]
    kw = {'sort_t': m.sort_t} if kind == 'tri' else {}
    if how == 'direct':
        n = int(rng.integers(1, 4))
        far = float(np.max(np.abs(m.p))) + 64.0
        extra = np.array([[far + 8.0 * (i + 1) + c for i in range(n)] for c in range(d)])
        return type(m)(np.hstack((m.p, extra)), m.t, validate=False, **kw), how
    shift = float(np.max(m.p[0]) - np.min(m.p[0])) + 64.0
    other = m.translated((shift,) + (0.0,) * (d - 1))
    return (m @ other)[0], how
