"""C06 translator (T2, fail closed): what Basis.project assembles and solves, re-read from the source on every run.

* ``helpers.inner`` restricted to scalar-valued components: the tuple branch (``sum`` of the component products,
  Python's ``sum`` starts from 0) and the ``len(u.shape) == 2`` branch (``u * v``);
* ``AbstractBasis._projection``: the two lambdas are *executed* on stand-in arguments with a recording ``inner`` to
  find which positional arguments they pair (trial/test for the mass form, interp/test for the load), and both forms
  must be assembled over ``self``;
* ``CellBasis.project`` / ``FacetBasis.project``: ``solve(*condense(M, f, I=self.get_dofs(...)))`` resp. ``solve(M, f)``.
"""
import ast

from . import t2
from .core import TranslateError
from .c05_tr import _body, _expect


def _inner(tree):
    fn = t2.find_def(tree, 'inner')
    body = _body(fn)
    if [a.arg for a in fn.args.args] != ['u', 'v']:
        raise TranslateError('inner signature')
    b0 = body[0]
    if not (isinstance(b0, ast.If) and t2.src(b0.test) == 'isinstance(u, tuple) and isinstance(v, tuple)' and not b0.orelse):
        raise TranslateError('inner: tuple branch')
    stm = [s for s in b0.body if not (isinstance(s, ast.Expr) and isinstance(s.value, ast.Constant))]
    want = ['out = []', 'for i in range(len(v)):\n    out.append(inner(u[i], v[i]))', 'return sum(out)']
    if [t2.src(s) for s in stm] != want:
        raise TranslateError('inner: tuple branch body ' + repr([t2.src(s) for s in stm]))
    b1 = body[1]
    if not (isinstance(b1, ast.If) and t2.src(b1.test) == 'len(u.shape) == 2' and len(b1.body) == 1):
        raise TranslateError('inner: scalar branch')
    _expect(b1.body[0], 'return u * v', 'inner scalar branch')
    b2 = b1.orelse[0] if len(b1.orelse) == 1 else None
    if not (isinstance(b2, ast.If) and t2.src(b2.test) == 'len(u.shape) == 3' and len(b2.body) == 1):
        raise TranslateError('inner: vector branch')
    _expect(b2.body[0], 'return dot(u, v)', 'inner vector branch')
    dot = t2.find_def(tree, 'dot')
    if [a.arg for a in dot.args.args] != ['u', 'v']:
        raise TranslateError('dot signature')
    _expect(_body(dot)[0], "return np.einsum('i...,i...', u, v)", 'helpers.dot')
    return ('Definition gen_dot (u v : list R) : R := lsum o (fun p => rmul o (fst p) (snd p)) (combine u v).'
            "   (* np.einsum('i...,i...', u, v) *)\n"
            'Definition gen_inner_field (u v : list R) : R :=          (* len(u.shape) == 2: u * v;  == 3: dot(u, v) *)\n'
            '  match u, v with [a], [b] => rmul o a b | _, _ => gen_dot u v end.\n'
            'Definition gen_inner_tuple (u v : list (list R)) : R :=   (* sum([inner(u[i], v[i]) for i ...]) = ((0 + t0) + t1) + ... *)\n'
            '  fold_left (fun acc p => radd o acc (gen_inner_field (fst p) (snd p))) (combine u v) (r0 o).')


def _projection(tree):
    fn = t2.find_def(tree, '_projection', 'AbstractBasis')
    body = _body(fn)
    ret = body[-1]
    if not (isinstance(ret, ast.Return) and isinstance(ret.value, ast.Tuple) and len(ret.value.elts) == 2):
        raise TranslateError('_projection: return')
    pre = [t2.src(s) for s in body[:-1] if not isinstance(s, (ast.ImportFrom, ast.Assert))]
    if pre != ['interp = self._normalize_interp(interp)']:
        raise TranslateError('_projection: statements before return ' + repr(pre))
    out = []
    for el, cls, nargs in zip(ret.value.elts, ('BilinearForm', 'LinearForm'), (3, 2)):
        # <cls>(lambda *args: ..., dtype=dtype).assemble(self)
        if not (isinstance(el, ast.Call) and isinstance(el.func, ast.Attribute) and el.func.attr == 'assemble'
                and [t2.src(a) for a in el.args] == ['self'] and not el.keywords):
            raise TranslateError('_projection: .assemble(self) expected: ' + t2.src(el)[:80])
        mk = el.func.value
        if not (isinstance(mk, ast.Call) and t2.src(mk.func) == cls and len(mk.args) == 1 and isinstance(mk.args[0], ast.Lambda)
                and [k.arg for k in mk.keywords] == ['dtype']):
            raise TranslateError(f'_projection: {cls}(lambda ...) expected')
        lam = mk.args[0]
        if lam.args.vararg is None or lam.args.args or lam.args.kwarg:
            raise TranslateError('_projection: lambda signature')
        rec = []

        def inner(a, b, rec=rec):
            rec.append((a, b))
            return 0
        f = eval(compile(ast.Expression(lam), '<_projection>', 'eval'), {'inner': inner, 'interp': ('INTERP',), 'len': len})
        names = ('U', 'V', 'W') if nargs == 3 else ('V', 'W')
        f(*names)
        if len(rec) != 1:
            raise TranslateError('_projection: lambda does not call inner exactly once')
        out.append(rec[0])
    if out[0] != (('U',), ('V',)):
        raise TranslateError(f'_projection: mass form pairs {out[0]}')
    if out[1] != (('INTERP',), ('V',)):
        raise TranslateError(f'_projection: load form pairs {out[1]}')
    return ('Definition gen_mass_kernel (u v : list (list R)) : R := gen_inner_tuple u v.   (* inner(args[:k], args[k:-1]) : trial, test *)\n'
            'Definition gen_load_kernel (w v : list (list R)) : R := gen_inner_tuple w v.   (* inner(interp, args[:-1]) : interp, test *)\n'
            'Definition gen_projection (N : nat) (B : fe R) (x : list R) :=\n'
            '  (mass_matrix o gen_mass_kernel N B, load_vector o gen_load_kernel N B x).   (* both forms .assemble(self) *)')


def _project(tree_cell, tree_facet):
    """CellBasis.project / FacetBasis.project.  Two forms of the subset argument are understood:
    (old) condense the system assembled over the WHOLE basis to the DOFs of the subset;
    (new) delegate to a basis RESTRICTED to the subset (with_elements / FacetBasis(facets=...)), i.e. assemble over the
          subset only — the assembly the theorem C06_projection_on_subset describes."""
    fn = t2.find_def(tree_cell, 'project', 'CellBasis')
    body = [s for s in _body(fn) if not isinstance(s, ast.ImportFrom)]
    tail = ['M, f = self._projection(interp, dtype=dtype)',
            'if self.tind is not None:\n    return solve(*condense(M, f, I=self.get_dofs(elements=self.tind)))',
            'return solve(M, f)']
    srcs = [t2.src(s) for s in body]
    if len(body) == 3 and srcs[0] == tail[0] and srcs[2] == tail[2] and srcs[1] == (
            'if elements is not None:\n    return solve(*condense(M, f, I=self.get_dofs(elements=elements)))\n'
            'elif self.tind is not None:\n    return solve(*condense(M, f, I=self.get_dofs(elements=self.tind)))'):
        cell_delegates = False
    elif (len(body) == 4 and srcs[1:] == tail and isinstance(body[0], ast.If) and t2.src(body[0].test) == 'elements is not None'
          and not body[0].orelse
          and t2.src(body[0].body[-1]) == 'return self.with_elements(elements).project(self._restrict_interp(interp, ix), dtype=dtype)'):
        cell_delegates = True
    else:
        raise TranslateError('CellBasis.project: ' + repr(srcs)[:400])
    fn = t2.find_def(tree_facet, 'project', 'FacetBasis')
    body = [s for s in _body(fn) if not isinstance(s, ast.ImportFrom)]
    srcs = [t2.src(s) for s in body]
    last = 'return solve(*condense(M, f, I=self.get_dofs(facets=self.find)))'
    if srcs == [tail[0], 'if facets is not None:\n    return solve(*condense(M, f, I=self.get_dofs(facets=facets)))', last]:
        facet_delegates = False
    elif (len(body) == 3 and srcs[1:] == [tail[0], last] and isinstance(body[0], ast.If) and t2.src(body[0].test) == 'facets is not None'
          and not body[0].orelse
          and t2.src(body[0].body[-1]) == 'return fbasis.project(self._restrict_interp(interp, ix[facets]), dtype=dtype)'
          and any(isinstance(s, ast.Assign) and t2.src(s.targets[0]) == 'fbasis' and 'facets=facets' in t2.src(s.value)
                  and t2.src(s.value).startswith('type(self)(self.mesh, self.elem') for s in body[0].body)):
        facet_delegates = True
    else:
        raise TranslateError('FacetBasis.project: ' + repr(srcs)[:400])
    return ('Definition gen_project_system (M : list (list (nat * R))) (f : list R) (I : list nat) :=\n'
            '  condense_call o M (Some f) None (Some I) None.                 (* condense(M, f, I=self.get_dofs(...)) *)\n'
            f'Definition gen_subset_argument_restricts : bool := {str(cell_delegates and facet_delegates).lower()}.'
            '   (* project(f, elements= / facets=) assembles over the subset only *)')


def translate():
    parts = [_inner(t2.parse('skfem/helpers.py')),
             _projection(t2.parse('skfem/assembly/basis/abstract_basis.py')),
             _project(t2.parse('skfem/assembly/basis/cell_basis.py'), t2.parse('skfem/assembly/basis/facet_basis.py'))]
    return ('(* GENERATED by vlib/c06_tr.py from skfem/helpers.py, skfem/assembly/basis/{abstract,cell,facet}_basis.py — do not edit *)\n'
            'From Coq Require Import List ZArith.\nImport ListNotations.\n'
            'Require Import Base.C05_Np Model.C05_BC Model.C06_Galerkin.\n\n'
            'Section Gen.\nContext {R : Type} (o : ring_ops R).\n' + '\n'.join(parts) + '\nEnd Gen.\n')
