#!/venv/bin/python
"""Single entry point of the /verif checks.

  check.py --setup                        build the source-independent Coq libraries
  check.py Cxx [--tier quick|thorough]    run the check of one property
  check.py Cxx --replay <file>            re-run one recorded failing input
  check.py --all [--tier ...]             run every property (sequentially)
"""
import argparse
import importlib
import os
import sys

HERE = os.path.dirname(os.path.abspath(__file__))


def _reexec():
    # fixed hash seed, /repo first on the path, no user site: the implementation under test is
    # always /repo's working tree
    want = {'PYTHONHASHSEED': '0', 'PYTHONPATH': os.environ.get('VERIF_REPO', '/repo'),
            'PYTHONDONTWRITEBYTECODE': '1', 'OMP_NUM_THREADS': '1', 'OPENBLAS_NUM_THREADS': '1',
            'JAX_PLATFORMS': 'cpu'}
    if any(os.environ.get(k) != v for k, v in want.items()) or sys.executable != '/venv/bin/python':
        env = dict(os.environ)
        env.update(want)
        os.execve('/venv/bin/python', ['/venv/bin/python', os.path.abspath(__file__)] + sys.argv[1:], env)


def main():
    _reexec()
    sys.path.insert(0, HERE)
    from vlib import core
    ap = argparse.ArgumentParser()
    ap.add_argument('pid', nargs='?')
    ap.add_argument('--tier', default=os.environ.get('VERIF_TIER', 'quick'), choices=['quick', 'thorough'])
    ap.add_argument('--replay')
    ap.add_argument('--setup', action='store_true')
    ap.add_argument('--all', action='store_true')
    a = ap.parse_args()
    seed = int(os.environ.get('VERIF_SEED', '20260923'))
    if a.setup:
        bad = core.scan_forbidden(core.all_v_files())
        if bad:
            print('forbidden constructs:\n' + '\n'.join(bad))
            sys.exit(1)
        ok, msg = core.build_static(verbose=True)
        print('setup', 'ok' if ok else 'FAILED\n' + msg)
        sys.exit(0 if ok else 1)
    pids = [a.pid] if a.pid else []
    if a.all:
        pids = sorted(f[1:3] for f in os.listdir(os.path.join(HERE, 'vlib', 'props')) if f.startswith('c') and f.endswith('.py'))
        pids = ['C' + p for p in pids]
    rc = 0
    for pid in pids:
        import skfem
        assert os.path.realpath(skfem.__file__).startswith(os.path.realpath(core.REPO)), skfem.__file__
        mod = importlib.import_module(f'vlib.props.{pid.lower()}')
        ctx = core.Ctx(pid, a.tier, seed, replay=a.replay)
        try:
            if a.replay:
                import json
                mod.replay(ctx, json.load(open(a.replay)))
            else:
                mod.run(ctx)
        except Exception as e:  # the harness itself broke: never report silently as a pass
            import traceback
            traceback.print_exc()
            ctx.broke('harness', type(e).__name__, traceback.format_exc())
        rc |= ctx.finish()
    sys.exit(rc)


if __name__ == '__main__':
    main()
